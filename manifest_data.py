"""Source of MANIFEST.json (run tools_manifest.py after editing)."""
SIM_NOTE = ("trusted base: the behavioural nRF24L01+ simulator (vlib/sim, self-tested against datasheet scenarios through raw "
            "SPI) and the reference models in vlib/ref, both written from the datasheet/documentation and not from the "
            "driver; chip assumptions (a)-(e) of DESIGN.md 2.6")

CHECKS = [
    {"property_id": "C17", "level": "exploration",
     "text": "Hypothesis-generated mesh scenarios: a master and 1..8 (quick) / 1..12 (thorough) RF24Mesh / RF24MeshNoMaster nodes with "
             "drawn IDs, start offsets and MCU timing models join concurrently, run a drawn script of lookups / sends / writes / "
             "check_connection / release (also right after a long message, or by the master's application behind the node's back) / "
             "re-join / power loss one call at a time, then look IDs up concurrently in staggered rounds; "
             "plus enumerated families: a relay and its child asking -3..+3 ms apart, repeated identical lookups with relay traffic in "
             "between, every node sending to every other (two messages before the target reads) for ID sets that coincide numerically with address "
             "values, master-side releases, 'only one node still accepts children' for every contact address and for a level-4 node; judged against the master's public table and "
             "all queues; with a loss word only no-exception / termination / valid-or-None are claimed.  Schedules are sampled: the "
             "weakest claim of the set; two IDs release and re-join with their addresses swapped between two sends of a third node; every case starts from a drawn value of the 16-bit frame-id counter",
     "design_ref": "4/C17", "note": SIM_NOTE + "; in concurrent phases an answer of -1 (no answer) is accepted; nodes orphaned by a "
     "parent that released or moved are not expected to be reachable",
     "technique": "property-based testing: Hypothesis-generated multi-node mesh scenarios (concurrent joins, scripted calls, staggered concurrent lookups) on the discrete-event simulation"},
    {"property_id": "C07", "level": "exploration",
     "text": "Hypothesis-generated histories of 1..12 public network / mesh calls on drawn nodes of drawn topologies (network family "
             "and mesh family), every node running its update() loop as a task, under a drawn cyclic loss word (lost packets, lost "
             "ACKs) and absent / invalid / own destinations; the listening invariant is read from the simulated chip every time any "
             "public call - including each update() of every node - returns, and on all nodes at quiescence; an enumerated family "
             "has the application stop listening / power down and then write (to a neighbour, through a parent, to nobody, to "
             "itself); histories and schedules are sampled; every case starts from a drawn value of the 16-bit frame-id counter",
     "design_ref": "4/C07", "note": SIM_NOTE + "; expected pipe addresses from vlib/ref/netaddr.py for the node's current public "
     "node_address / multicast_level / allow_multicast",
     "technique": "stateful property-based testing: Hypothesis-generated call histories with fault injection, chip-level invariant checked after every returning call"},
    {"property_id": "C16", "level": "exploration",
     "text": "a mesh master on a simulated radio receives real MESH_ADDR_REQUEST / MESH_ADDR_RELEASE frames over the air (direct "
             "and relayed) and its replies are read from the air log; every event word to depth 3 (quick) / 4 (thorough) over "
             "requests, re-requests, releases by message and API and save/load cycles, for five pre-filled tables, plus a sweep of a "
             "request through every one of the 155 relay addresses of level 1..3 with empty / nearly full / full parents, and a "
             "sweep of a second request arriving while the master waits for the NETWORK_ACK of a routed reply, are enumerated; Hypothesis draws ids 1..255 and histories to 14 events, and tables of 0..255 entries for persistence; the "
             "lease-table invariants of the statement are evaluated on dhcp_dict after every event, and every copy of a reply on air must agree; a sweep 'relay full, a new ID refused, one child released by message / API, another new ID must be served' over all 155 relays and the master; requests of one ID keep one frame id, the refused ID asks again after the release",
     "design_ref": "4/C16", "note": SIM_NOTE + "; weak liveness (a request with a free slot is answered) is assumed as part of 'a released address becomes available again'",
     "technique": "model-based property testing: bounded-exhaustive event words + Hypothesis histories with lease-table invariants checked after every event"},
    {"property_id": "C14", "level": "exploration",
     "text": "every sender class (master, 0o1, other level-1, levels 2..4) x every target level (default, 0..4, -1, 5) x message "
             "length class is enumerated on a fixed populated topology; Hypothesis draws populated topologies of 6..20 nodes with "
             "per-node allow_multicast / multicast_relay / overridden multicast_level / re-addressing from another level and MCU timing "
             "models, pre-histories of routed writes, relays with full queues, relays on every level 0..4 and a member's own write racing the "
             "multicast; after quiescence all "
             "queues are compared with the reference set of level members, the air log is checked for the level address, single "
             "attempts, absence of ACK packets, relay re-broadcasts and the set of levels a relayed message may reach; an enumerated frame-by-frame "
             "scenario injects plain frames and fragments of longer multicasts into a level 1..3 relay (each re-broadcast once, byte for byte, to the next level); schedules are sampled; a child's unicast landing in a member's RX FIFO together with the multicast; every case starts from a drawn value of the 16-bit frame-id counter; the multicast follows another node's fragmented multicast that lost its last fragment",
     "design_ref": "4/C14", "note": SIM_NOTE + "; a receiver whose 3-level RX FIFO was overrun by an unacknowledged fragment burst is "
     "not judged for reception (counted); relay multiplicity scoped as in DESIGN 4/C14",
     "technique": "enumeration of sender-class x level + Hypothesis-generated populated topologies on the multi-node simulation, set-equality oracle over all queues and the air log"},
    {"property_id": "C13", "level": "fault_enumeration",
     "text": "every (route length 1..8, direction, message type class, fault position) combination is enumerated: no fault, every "
             "attempt of the data frame at hop i lost, every attempt of the NETWORK_ACK relay at hop j lost, the first k attempts of "
             "the origin's frame lost with a route_timeout sweep, and a second acknowledged message relayed by the waiting sender, a child chattering to the waiting sender, "
             "multicast_level overrides on every node, header objects carrying a stale origin, 24-byte messages, a sender whose own queue holds 0..9 unread frames; "
             "Hypothesis draws routes over the whole address space, types 0..255, timeouts, MCU timing models, bystanders and faults "
             "beyond it; originators and addressees of type-193 frames, the arrival time of the NETWORK_ACK at the origin's chip and "
             "the duration of write() are taken from the medium's ground-truth log; the same frame object written once or twice before the judged write; every case starts from a drawn value of the 16-bit frame-id counter; the type assigned as a one-character str after construction",
     "design_ref": "4/C13", "note": SIM_NOTE + "; arrivals within +-(2 ms + 40 SPI transactions) of the deadline are labelled ambiguous and not judged",
     "technique": "fault-position enumeration + Hypothesis-generated routes/timeouts on the multi-node simulation, oracle from the ground-truth air log"},
    {"property_id": "C05", "level": "exploration",
     "text": "Hypothesis-generated scenarios: a drawn parent-closed topology of 2..12 nodes (depth <= 4, full and routing-only "
             "nodes), every node running its own update() loop as a task on its own simulated radio with a drawn MCU timing model, "
             "1..4 sequential messages (lengths 0..144, user types 0..127, write()/send(), fresh or explicit ids), per-node "
             "multicast_level overrides; after each message the network is left to become quiescent, all queues are compared with "
             "what was sent and every frame a router took from the air must have been forwarded; routers with allow_multicast off, re-addressed and power-cycled "
             "nodes, a failed write to an address nobody holds as history before a message, and queues read only at the end with frame ids colliding between origins (enumerated + drawn); schedules are sampled "
             "(seeded timing models), so an interleaving that needs a particular sub-millisecond alignment can be missed; direct fragmented messages to a slow destination and to one whose application is busy for 30..90 ms (fragments refused at radio level, software retries)",
     "design_ref": "4/C05", "note": SIM_NOTE + "; loss-free medium with first-locked-wins on overlap; one open known finding "
     "(pipelined fragments, DESIGN 5.3) is excluded by signature and counted",
     "technique": "property-based testing: Hypothesis-generated topologies/messages/timing models on a multi-node discrete-event simulation, delivery oracle over all queues"},
    {"property_id": "C04", "level": "exploration",
     "text": "one simulated radio per address, RF24Network constructed on each: the six pipe addresses of all 781 nodes are read "
             "from the radios and compared with the reference translation, pairwise uniqueness and level sharing are checked "
             "(exhaustive, default bytes, multicast on and off, plus drawn distinct byte sets); every ordered (source, destination) "
             "pair is routed by real write()/update() calls - quick: first hop of all 609 180 pairs + full delivery for a sample; "
             "thorough: full delivery of all pairs for both multicast settings - each hop compared with the reference tree path, "
             "address and receiver set; multicast() to every level from sampled senders; drawn byte sets on drawn subtrees; re-keying every node after traffic; nodes created elsewhere and moved to their address",
     "design_ref": "4/C04", "note": SIM_NOTE + "; vlib/ref/netaddr.py (tree arithmetic, TMRh20 pipe_address) is the specification; "
     "IndexedMedium offers a packet only to chips whose registers show an enabled pipe on its address",
     "technique": "exhaustive enumeration of address pairs driven through the real API on a simulated population, differential against reference address arithmetic; Hypothesis for drawn byte sets/subtrees"},
    {"property_id": "C18", "level": "exploration",
     "text": "enumeration of name x show_pa_level x pa_level x way of tuning x container form (buffer+type, list, tuple, list of "
             "bytearrays) x fill relative to the capacity (quick -1..+1, thorough -3..+2) x 1 or 3 advertisements of the same "
             "container with hops in between (show_pa_level also given as truthy non-bool values); Hypothesis-generated histories of MAC / name / show_pa_level / pa_level / hop_channel / channel= / with-block "
             "re-entry and advertise() calls whose chunk lists are constructed around the capacity boundary; the W_TX_PAYLOAD bytes "
             "and RF_CH are read from the simulated chip and parsed by an independent bit-serial BLE link-layer reference "
             "(de-whitening with the channel implied by RF_CH, PDU header, length, AdvA, AD structures verbatim, CRC-24); "
             "len_available() and the ValueError boundary are compared with the arithmetic of the BLE packet layout; another driver object on the same radio has its own with-block (own channel and payload length) between two blocks of the FakeBLE object",
     "design_ref": "4/C18", "note": "trusted base: vlib/ref/ble.py (written from the Core specification, reproduces the published "
     "channel-37 whitening sequence and the CRC test vector) and the chip model's SPI trace; the library's own receiver is not used as oracle",
     "technique": "property-based testing: boundary enumeration + Hypothesis histories with an independent BLE reference decoder as oracle"},
    {"property_id": "C19", "level": "exploration",
     "text": "FakeBLE->FakeBLE round trips over the simulated air on all three channels for generated name/PA/service-data "
             "combinations (show_pa_level as bool or truthy int, URL power set before or after the buffer was first read), packets from the independent BLE encoder, every single and (thorough: every; quick: 1/8 of the) double "
             "bit flip of valid packets, CRC-valid packets with adversarial AD areas, random 32-byte payloads, and an "
             "atheris/libFuzzer campaign with the oracle in the target; the reference parser decides which payloads are consistent "
             "packets, decoded values are compared with what was advertised, available() must never raise, read() order is checked, and "
             "a second FakeBLE object on a radio of its own must never report an element; a scanner that also advertises with elements queued",
     "design_ref": "4/C19", "note": "trusted base: vlib/ref/ble.py and the simulator; temperature float tolerance 0.01 (encoder truncates to 1/100)",
     "technique": "property-based testing: round-trip + differential against independent BLE encoder/parser, exhaustive bit-flip enumeration, coverage-guided fuzzing (atheris)"},
    {"property_id": "C15", "level": "exploration",
     "text": "the validity predicate is compared with the reference on all 65536 values (exhaustive); a node of every role "
             "(routing-only, network, mesh node, unassigned mesh node, mesh master) and level 0..4 receives, through the simulated "
             "air, a bounded-exhaustive set of structured frames (256 types x length classes x destination x origin classes), "
             "an address request from every one of the 781 well-formed origin addresses to a master, mesh-master histories with full "
             "parents, every sequence of 3 (thorough: 4) fragment / plain frames from one origin with multicast relaying, "
             "fragmentation and re-addressing varied, the same with an acknowledging neighbourhood (transmissions succeed at radio level, nobody answers), payload batches before one update(), Hypothesis-generated payload sequences and a coverage-guided atheris/libFuzzer campaign (16 processes, empty and "
             "seeded corpora) whose target contains the same oracle: update() returns normally within 3 s of virtual time and (for "
             "the enumerated and generated parts named in DESIGN 4b) within a deterministic budget of executed library lines, frames "
             "rejected by the reference predicate cause no queue growth and no transmission",
     "design_ref": "4/C15", "note": SIM_NOTE + "; exceptions are bucketed by (type, innermost library frame); a fuzz time budget "
     "running out is not a verdict",
     "technique": "exhaustive predicate differential + bounded-exhaustive structured frames + Hypothesis + coverage-guided fuzzing (atheris) with in-target oracle"},
    {"property_id": "C06", "level": "fault_enumeration",
     "text": "delivery patterns are enumerated exhaustively for a 2- and a 3-fragment message (every drop/once/twice word, every "
             "arrival order, dequeue after every step or at the end) and for two senders with equal frame ids (every loss word x "
             "every interleaving); Hypothesis generates larger patterns (1..3 senders, 2..7 fragments, duplicates, bounded "
             "reordering, stray fragments, ordinary frames, dequeues) through three executors (fresh frame objects, one reused "
             "frame object, over the simulated air into a node's update()), completions the queue refuses followed by repeats, and "
             "an atheris/libFuzzer campaign whose data provider decodes bytes into a delivery pattern; every frame handed to the application is compared "
             "with the set of messages actually sent and with the number of complete in-order presentations",
     "design_ref": "4/C06", "note": "oracle: history invariant computed from the reference fragmenter's output (vlib/ref/frag.py); "
     "a sender never reuses a frame id for two different messages to one destination (outside the protocol, such cases are not judged)",
     "technique": "fault-pattern enumeration + Hypothesis-generated delivery patterns + coverage-guided fuzzing (atheris) with a history-invariant oracle"},
    {"property_id": "C11", "level": "exploration",
     "text": "Hypothesis-generated header field values / buffers compared with an independently written struct layout, and "
             "one real write() for every message length 0..144 (exhaustive over lengths, several contents/types/ids per length) "
             "to a direct neighbour and through one router, and after every history of <= 3 (quick) / 5 (thorough) sender "
             "configuration calls (fragmentation on/off, max_message_length) at ten boundary lengths, after earlier messages of the same sender, with the first k attempts of one fragment lost, and "
             "through multicast() with int and one-character str types, the on-air frames captured from the simulated medium and compared "
             "field by field with the reference fragmenter and fed to a reference TMRh20-style reassembler; the same header and message objects sent again after the node received another frame (the application's message object must be unchanged); refused 0..7-byte buffers leave header and frame as they were",
     "design_ref": "4/C11", "note": SIM_NOTE + "; vlib/ref/frag.py is the specification of the TMRh20 fragment format",
     "technique": "property-based testing: round-trip + differential against reference fragmenter/reassembler on captured on-air frames"},
    {"property_id": "C09", "level": "exploration",
     "text": "every ordered pair of classes x one (quick) / two (thorough) configuration calls of the first x one call of the second "
             "from per-class alphabets (incl. print_pipes()/print_details(), which re-read the shadow registers), each object "
             "re-entered afterwards, and every sequence of 3 (thorough: 4) pipe-0 / TX-address / role calls by an RF24 object, "
             "enumerated; calls that FakeBLE rejects with NotImplementedError as FakeBLE ops; Hypothesis-generated interleavings of 3..12 with-blocks of 2..3 objects (RF24, FakeBLE, RF24Network, RF24Mesh in any "
             "mix) sharing one simulated radio, each block running drawn configuration calls; for every re-entry the chip's "
             "complete configuration register file is compared with the snapshot taken at the end of that object's previous "
             "block, and PWR_UP/CE are checked after every __exit__; exhaustive only for the stated alphabets; every third block is left through an exception",
     "design_ref": "4/C09", "note": SIM_NOTE + "; the oracle is a relation between two chip snapshots, no model of the individual setters is needed",
     "technique": "property-based testing: enumerated class-pair/call combinations + Hypothesis-generated multi-object with-block interleavings, metamorphic snapshot-equality oracle"},
    {"property_id": "C10", "level": "exploration",
     "text": "every word of 3 (quick) / 4 (thorough) traffic and mutator ops over a 17-symbol alphabet in every payload mode, "
             "followed by an accessor tail (exhaustive), interrupt_config() of all six classes in every flag combination (positional / "
             "keyword), a second radio with its own driver object polled before every accessor, and Hypothesis op lists mixing traffic (peer sends to any pipe, write/CE/send to listening, absent or ACK-payload peers, "
             "load_ack, role toggles) with every accessor in all its argument forms, in dynamic / static per-pipe / mixed payload "
             "modes; each accessor is compared with the simulated chip's FIFOs, latched flags, STATUS byte of the last "
             "transaction, retransmission count in the air log and IRQ pin; exhaustive only for the stated words; on plus and non-plus chips, warm-started chips; the non-blocking write() flow is part of the enumerated alphabet",
     "design_ref": "4/C10", "note": SIM_NOTE + "; the executor lets radio activity finish before each op so no event races an accessor",
     "technique": "property-based testing: bounded-exhaustive op words + Hypothesis-generated traffic/accessor histories against simulated-chip ground truth"},
    {"property_id": "C20", "level": "exploration",
     "text": "the C01/C02/C03/C08/C10 harnesses re-run with the lite driver as transmitter, receiver and both (their enumerated "
             "parts at reduced depth, their generated parts at reduced counts) against the lite variants of the reference models, "
             "plus exhaustive enumeration of load_ack() over lengths 0..40 x pipes -1..6 x TX FIFO fill 0..3 x ack enabled or not",
     "design_ref": "4/C20", "note": SIM_NOTE + "; documented lite reductions from docs/troubleshooting.rst are encoded in the lite reference",
     "technique": "differential/model-based property testing of the lite driver with the parent properties' generators and oracles"},
    {"property_id": "C01", "level": "exploration",
     "text": "Hypothesis-generated link configurations x payload lists, executed on two simulated radios through the public API; "
             "the received sequence, pipe, any(), the W_TX_PAYLOAD bytes on the SPI bus and the caller's buffers are compared "
             "with the documented padding/truncation/rejection rule; plus ping-pong exchanges (both ends switch roles; the answer read at once or only after the next "
             "send_only send), write() as a call form, calls during which the peer is deaf, configuration pre-histories and call "
             "orders, per-pipe payload modes (int / list / tuple forms), enumerated write(write_only=True) bursts with CE raised by the application, ACK payloads left over at a role swap, and long lists (4..12 payloads) with a receiver task draining the FIFO concurrently; sampled inputs, no exhaustiveness claimed; on plus and non-plus chips, cold and warm-started chips, each radio on its own spidev object or both on one host's shared spidev object",
     "design_ref": "4/C01", "note": SIM_NOTE,
     "technique": "property-based testing (Hypothesis composite generator) with a documented-rule oracle on a simulated link"},
    {"property_id": "C03", "level": "exploration",
     "text": "model-based: all ordered pairs (quick) / triples (thorough) of 104 boundary configuration calls, each followed by a "
             "with-block re-entry and an all-getters step, plus Hypothesis call lists to length 40 with in- and out-of-domain "
             "arguments; after every call the chip's complete register file, its reserved/illegal-write log, the outcome kind and "
             "the getters are compared with a register model written from the documentation; exhaustive only for the stated call list; every word of 3..4 (thorough 5) calls that share FEATURE / EN_AA / DYNPD; a third of the generated histories construct the driver on a warm-started chip",
     "design_ref": "4/C03", "note": SIM_NOTE + "; vlib/ref/regs.py is the specification of the documented encodings",
     "technique": "model-based property testing: bounded-exhaustive call pairs/triples + Hypothesis call sequences vs register reference model"},
    {"property_id": "C08", "level": "exploration",
     "text": "breadth-first enumeration of every call sequence to depth 4 (quick) / 5 (thorough) over a 17-symbol alphabet of "
             "pipe-0 opens/closes, open_tx_pipe, auto-ack changes, ack = True, a transmission, a with-block re-entry and listen toggles "
             "for address widths 3..5, Hypothesis "
             "sequences to length 40 beyond; registers after every call are compared with the reference model of the user's "
             "pipe 0, CE/role-change discipline is read from the chip trace, and each sequence ends with a behavioural probe "
             "(packet to the user's address / send() to a listening peer); calls the driver refuses (pipe 6 / -1, empty address) are part of the alphabet: nothing may change, CE included; sleep / wake cycles at every position of the core sequences; a probe 'send() after returning to TX mode' for sequences without a pipe-0 reading address",
     "design_ref": "4/C08", "note": SIM_NOTE,
     "technique": "bounded-exhaustive call-sequence enumeration + Hypothesis sequences vs reference model, with on-air probes"},
    {"property_id": "C02", "level": "fault_enumeration",
     "text": "every D/P/A outcome word over the (1+arc)(1+force_retry) attempts is enumerated for arc<=1 (quick) / arc<=2 "
             "(thorough), force_retry<=1, x {auto-ack, ACK payload loaded/empty} x send_only x follow-up call, plus "
             "no-ack modes and a deaf peer; Hypothesis histories (arc 0..15, all ard codes, force_retry 0..3, words to 64 "
             "symbols, 1..6 calls incl. list input) beyond it; with read() / listen round trips (also with an uncollected ACK payload) / with-block re-entry / a clear-the-flags step (CE low, clear_status_flags(), update()) between calls, on plus and non-plus chips, neutral configuration pre-histories and "
             "short TX addresses after a pipe-0 history; each call's result, attempt count, duration and every on-air payload are "
             "judged against the medium's ground-truth log (an ACK the peer sent but the driver's own pipe-0 state made "
             "inaudible counts as acknowledged); cold and warm-started chips, own or shared spidev object",
     "design_ref": "4/C02", "note": SIM_NOTE,
     "technique": "fault-sequence enumeration + Hypothesis-generated call histories against the simulator's ground-truth air log"},
    {"property_id": "C12", "level": "exploration",
     "text": "model-based: every op word to the stated depth over the op alphabet (enqueue of five frames incl. equal-key variants, a complete fragmented message, dequeue, peek, "
             "capacity changes; exhaustive), every non-fragment message type 0..255 through both queue classes, Hypothesis op lists to length "
             "40, and histories produced by a Hypothesis rule-based state machine whose rules step the reference queue (state-aware "
             "preconditions), all run in lock-step against an independent reference queue, with a second queue object reassembling a message of "
             "its own in the same program; absence beyond the explored histories "
             "is not shown",
     "design_ref": "4/C12", "note": "reference queue vlib/ref/queue.py is the specification; int message types only",
     "technique": "model-based property testing: exhaustive op-word enumeration + Hypothesis op lists + rule-based state machine vs reference model"},
]

ALL = ["C%02d" % i for i in range(1, 21)]
_claimed = {c["property_id"] for c in CHECKS}
NOT_APPLICABLE = [{"property_id": p, "reason": "check not built yet in this session (planned, see DESIGN.md section 4)"}
                  for p in ALL if p not in _claimed]
NOTES = ("All checks run the unmodified library from /repo's working tree on a simulated radio; see DESIGN.md. "
         "VERIF_SEED selects the Hypothesis seed; VERIF_NPROC the worker count (default 16).")
