"""Source of MANIFEST.json (run tools_manifest.py after editing)."""
SIM_NOTE = ("trusted base: the behavioural nRF24L01+ simulator (vlib/sim, self-tested against datasheet scenarios through raw "
            "SPI) and the reference models in vlib/ref, both written from the datasheet/documentation and not from the "
            "driver; chip assumptions (a)-(e) of DESIGN.md 2.6")

CHECKS = [
    {"property_id": "C02", "level": "fault_enumeration",
     "text": "every D/P/A outcome word over the (1+arc)(1+force_retry) attempts is enumerated for arc<=1 (quick) / arc<=2 "
             "(thorough), force_retry<=1, x {auto-ack, ACK payload loaded/empty} x send_only x follow-up call, plus "
             "no-ack modes and a deaf peer; Hypothesis histories (arc 0..15, all ard codes, force_retry 0..3, words to 64 "
             "symbols, 1..6 calls incl. list input) beyond it; each call's result, attempt count, duration and every "
             "on-air payload are judged against the medium's ground-truth log",
     "design_ref": "4/C02", "note": SIM_NOTE,
     "technique": "fault-sequence enumeration + Hypothesis-generated call histories against the simulator's ground-truth air log"},
    {"property_id": "C12", "level": "exploration",
     "text": "model-based: every op word to the stated depth over a 9-symbol alphabet (exhaustive) plus Hypothesis op lists "
             "to length 40 run in lock-step against an independent reference queue; absence beyond the explored histories "
             "is not shown",
     "design_ref": "4/C12", "note": "reference queue vlib/ref/queue.py is the specification; int message types only",
     "technique": "property-based testing: exhaustive op-word enumeration + Hypothesis op lists vs reference model"},
]

ALL = ["C%02d" % i for i in range(1, 21)]
_claimed = {c["property_id"] for c in CHECKS}
NOT_APPLICABLE = [{"property_id": p, "reason": "check not built yet in this session (planned, see DESIGN.md section 4)"}
                  for p in ALL if p not in _claimed]
NOTES = ("All checks run the unmodified library from /repo's working tree on a simulated radio; see DESIGN.md. "
         "VERIF_SEED selects the Hypothesis seed; VERIF_NPROC the worker count (default 16).")
