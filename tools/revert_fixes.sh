#!/bin/bash
# For every 'fixed:' entry of known_findings.txt: revert that fix in a scratch worktree, run the property's quick
# check against it and keep the smallest shrunk failing case as a committed regression replay
# replays/<Cxx>/reg_fix_<commit>.json (it must fail with the fix reverted and pass on the repaired tree).
cd /verif
grep "^fixed:" known_findings.txt | awk '{print $2, $3}' | sed 's/property=//' | while read pid commit; do
  [ -n "$1" ] && [ "$1" != "$commit" ] && continue
  ls replays/$pid/reg_fix_${commit}*.json >/dev/null 2>&1 && { echo "$pid $commit: have replay"; continue; }
  wt=/tmp/wt/rev.$commit; out=/tmp/revout.$commit
  git -C /repo worktree add -q --detach $wt HEAD || continue
  if ! git -C $wt revert --no-commit $commit >/dev/null 2>&1; then
    echo "$pid $commit: revert conflicts with later fixes - skipped"; git -C $wt revert --abort 2>/dev/null; git -C /repo worktree remove --force $wt; continue
  fi
  VERIF_REPO=$wt VERIF_OUT=$out VERIF_SEED=1 ./run.py $pid --tier quick > $out.log 2>&1; rc=$?
  n=$(ls $out/replays/$pid/found_*.json 2>/dev/null | wc -l)
  echo "$pid $commit: rc=$rc, $n replay(s): $(grep -E '^  C[0-9]+/' $out.log | head -3 | cut -c1-110 | tr '\n' ';')"
  if [ "$n" -gt 0 ]; then
    # the two smallest cases with different signatures
    i=0
    for f in $(ls -S -r $out/replays/$pid/found_*.json | head -2); do
      i=$((i+1)); cp $f replays/$pid/reg_fix_${commit}_$i.json
    done
  fi
  git -C /repo worktree remove --force $wt; rm -rf $out $out.log
done
