#!/usr/bin/env python3
"""regenerate the seeded-change table of DESIGN.md section 10 from seeded/*/meta.json"""
import glob, json, re
rows = []
for d in sorted(glob.glob('/verif/seeded/*/meta.json')):
    m = json.load(open(d)); name = d.split('/')[-2]
    rows.append("| %s | %s | %s |" % (name, m['summary'].replace('|', '/').replace('\n', ' ')[:170], m.get('caught_by', '').replace('|', '/')))
p = '/verif/DESIGN.md'
s = open(p).read()
a = s.index("| id | change | caught by |")
b = s.index("Self-made one-line mutants")
s = s[:a] + "| id | change | caught by |\n|---|---|---|\n" + "\n".join(rows) + "\n\n" + s[b:]
s = re.sub(r"\*\*All \d+ kept changes", "**All %d kept changes" % len(rows), s)
open(p, 'w').write(s)
print(len(rows), "rows")
