#!/bin/bash
# usage: tools/which.sh <patch> <Cxx> [Cxx...]  -- names of the checks (of those given) whose quick tier catches the patch
patch=$(realpath "$1"); shift
wt=/tmp/wt/which.$$; out=/tmp/whichout.$$
git -C /repo worktree add -q --detach "$wt" HEAD || exit 2
git -C "$wt" apply "$patch" || { echo "patch does not apply"; git -C /repo worktree remove --force "$wt"; exit 2; }
cd /verif
for p in "$@"; do
  o=$(VERIF_REPO=$wt VERIF_OUT=$out VERIF_SEED=1 ./run.py $p --tier quick 2>&1); rc=$?
  [ $rc -eq 1 ] && echo "$p: $(echo "$o" | grep -E '^  C[0-9]+/' | head -2 | cut -d' ' -f3 | tr '\n' ' ')"
done
rm -rf "$out"; git -C /repo worktree remove --force "$wt"
