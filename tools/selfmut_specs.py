"""One-edit mutants aimed at clauses of the checks that no seeded change or reverted fix had exercised
(tools/selfmut.py applies each to a scratch worktree and runs the named quick checks).  `old` must occur exactly once
in `file` unless `nth` says which occurrence to replace."""
MX = "circuitpython_nrf24l01/network/mixins.py"
MESH = "circuitpython_nrf24l01/rf24_mesh.py"
RF = "circuitpython_nrf24l01/rf24.py"
ST = "circuitpython_nrf24l01/network/structs.py"
BLE = "circuitpython_nrf24l01/fake_ble.py"
NET = "circuitpython_nrf24l01/rf24_network.py"

SPECS = [
    # ---- C13 NETWORK_ACK discipline
    dict(name="c13-ack-to-master-instead-of-origin", file=MX, checks=["C13"],
         old="self.frame_buf.header.to_node = self.frame_buf.header.from_node\n                ack_to_node",
         new="self.frame_buf.header.to_node = 0\n                ack_to_node"),
    dict(name="c13-ack-sent-twice", file=MX, checks=["C13"],
         old="                self._write_to_pipe(ack_to_node, ack_to_pipe, is_multicast)\n",
         new="                self._write_to_pipe(ack_to_node, ack_to_pipe, is_multicast)\n                self._write_to_pipe(ack_to_node, ack_to_pipe, is_multicast)\n"),
    dict(name="c13-direct-write-waits-for-ack", file=MX, checks=["C13"],
         old="elif to_node != write_direct and send_type in (TX_NORMAL, TX_LOGICAL):", new="elif send_type in (TX_NORMAL, TX_LOGICAL):"),
    dict(name="c13-master-never-acks", file=MX, checks=["C13"],
         old="if result and is_ack_t:  # does", new="if result and is_ack_t and self._addr:  # does"),
    dict(name="c13-ack-for-every-type", file=ST, checks=["C13"],
         old="return 64 < self.header.message_type < 192", new="return self.header.message_type < 192"),
    dict(name="c13-wait-ignores-timeout", file=MX, checks=["C13"],
         old="rx_timeout = self.route_timeout * 1000000 + time.monotonic_ns()", new="rx_timeout = self.route_timeout * 4000000 + time.monotonic_ns()"),
    # ---- C14 multicast
    dict(name="c14-relay-two-levels-down", file=MX, checks=["C14"],
         old="(_lvl_2_addr(self._net_lvl) << 3) & 0xFFFF", new="(_lvl_2_addr(self._net_lvl) << 6) & 0xFFFF"),
    dict(name="c14-relay-does-not-queue", file=MX, checks=["C14"],
         old="                self.queue.enqueue(self.frame_buf)\n                if self.multicast_relay:",
         new="                if not self.multicast_relay:\n                    self.queue.enqueue(self.frame_buf)\n                if self.multicast_relay:"),
    dict(name="c14-multicast-off-still-level-address", file=MX, checks=["C14", "C04"],
         old="if not self.allow_multicast or (\n            self.allow_multicast and (pipe_number or not node_addr)\n        ):",
         new="if (\n            self.allow_multicast and (pipe_number or not node_addr)\n        ):"),
    dict(name="c14-sender-queues-own-multicast", file=MX, checks=["C14"],
         old="        return self._write(_lvl_2_addr(level), TX_MULTICAST)",
         new="        self.queue.enqueue(self.frame_buf)\n        return self._write(_lvl_2_addr(level), TX_MULTICAST)"),
    # ---- C16 master leases
    dict(name="c16-slot-test-inverted", file=MESH, checks=["C16"],
         old="if addr == new_addr and n_id != self.frame_buf.header.reserved:", new="if addr == new_addr and n_id == self.frame_buf.header.reserved:"),
    dict(name="c16-reply-loses-id", file=MESH, checks=["C16"],
         old="                self.frame_buf.header.message_type = MESH_ADDR_RESPONSE\n",
         new="                self.frame_buf.header.message_type = MESH_ADDR_RESPONSE\n                self.frame_buf.header.reserved = 0\n"),
    dict(name="c16-reply-to-default-address", file=MESH, checks=["C16"],
         old="                self.frame_buf.header.to_node = self.frame_buf.header.from_node\n                self.frame_buf.message = struct.pack(\"<H\", new_addr)",
         new="                self.frame_buf.header.to_node = NETWORK_DEFAULT_ADDR\n                self.frame_buf.message = struct.pack(\"<H\", new_addr)"),
    dict(name="c16-one-slot-less", file=MESH, checks=["C16"],
         old="for i in range(MESH_MAX_CHILDREN + extra_child, 0, -1):", new="for i in range(MESH_MAX_CHILDREN + extra_child - 1, 0, -1):"),
    dict(name="c16-default-address-granted", file=MESH, checks=["C16"],
         old="            if new_addr == NETWORK_DEFAULT_ADDR:\n                continue", new="            if new_addr == NETWORK_DEFAULT_ADDR:\n                pass"),
    dict(name="c16-direct-reply-routed", file=MESH, checks=["C16"],
         old="                    self._write(self.frame_buf.header.to_node, TX_PHYSICAL)\n                break",
         new="                    self._write(self.frame_buf.header.to_node, TX_NORMAL)\n                break"),
    dict(name="c16-release-api-reports-false", file=MESH, checks=["C16"],
         old="                del self.dhcp_dict[id]\n                return True", new="                del self.dhcp_dict[id]\n                return False"),
    dict(name="c16-shift-off-by-one-level", file=MESH, checks=["C16"],
         old="            while temp:\n                temp >>= 3\n                shift_val += 3", new="            while temp >> 3:\n                temp >>= 3\n                shift_val += 3"),
    dict(name="c16-request-for-id0-served", file=MESH, checks=["C16", "C17"],
         old="if msg_t == MESH_ADDR_REQUEST and self.frame_buf.header.reserved:", new="if msg_t == MESH_ADDR_REQUEST:"),
    # ---- C17 mesh node side
    dict(name="c17-lookup-changes-table", file=MESH, checks=["C17"],
         old="                    ret_val = self.lookup_address(self.frame_buf.message[0])",
         new="                    ret_val = self.lookup_address(self.frame_buf.message[0])\n                    self.dhcp_dict.pop(self.frame_buf.message[0] + 1, None)"),
    dict(name="c17-release-keeps-address-on-node", file=MESH, checks=["C17"],
         old="            if self._write(0, TX_NORMAL):\n                super()._begin(NETWORK_DEFAULT_ADDR)\n                return True",
         new="            if self._write(0, TX_NORMAL):\n                return True"),
    dict(name="c17-check-connection-always-true", file=MESH, checks=["C17"],
         old="        if self._addr == NETWORK_DEFAULT_ADDR:\n            return False\n        for _ in range(attempts):",
         new="        if self._addr == NETWORK_DEFAULT_ADDR:\n            return True\n        for _ in range(attempts):"),
    dict(name="c17-renew-ignores-contact-test", file=MESH, checks=["C17"],
         old="                    if test_addr != contact:\n                        new_addr = None", new="                    if test_addr != contact and False:\n                        new_addr = None"),
    dict(name="c17-send-to-own-id-goes-to-master", file=MESH, checks=["C17"],
         old="        if to_node == self._id:\n            to_node = self._addr", new="        if to_node == self._id:\n            to_node = 0"),
    # ---- C10 accessors
    dict(name="c10-read-keeps-data-ready", file=RF, checks=["C10"],
         old="        self.clear_status_flags(True, False, False)\n        return result", new="        return result"),
    dict(name="c10-pipe-off-by-one-limit", file=RF, checks=["C10"],
         old="        if result <= 5:\n            return result", new="        if result < 5:\n            return result"),
    dict(name="c10-flush-rx-flushes-tx", file=RF, checks=["C10"],
         old='        """Flush all 3 levels of the RX FIFO."""\n        self._reg_write(0xE2)', new='        """Flush all 3 levels of the RX FIFO."""\n        self._reg_write(0xE1)'),
    dict(name="c10-fifo-empty-full-swapped", file=RF, checks=["C10"],
         old="return bool(_fifo & ((2 - bool(check_empty)) << (4 * about_tx)))", new="return bool(_fifo & ((1 + bool(check_empty)) << (4 * about_tx)))"),
    # ---- C08 CE / role discipline
    dict(name="c08-rx-entry-leaves-ce-low", file=RF, checks=["C08"],
         old="        if is_rx:\n            self._ce_pin.value = True\n            if (", new="        if is_rx:\n            if ("),
    dict(name="c08-role-change-with-ce-high", file=RF, checks=["C08"],
         old="    def listen(self, is_rx: bool):\n        self._ce_pin.value = False\n", new="    def listen(self, is_rx: bool):\n"),
    # ---- C09 context
    dict(name="c09-exit-leaves-power", file=RF, checks=["C09"],
         old="        self._config &= 0x7D  # power off radio", new="        self._config &= 0x7F  # power off radio"),
    dict(name="c09-exit-leaves-ce", file=RF, checks=["C09"],
         old="    def __exit__(self, *exc):\n        self._ce_pin.value = False\n", new="    def __exit__(self, *exc):\n"),
    # ---- C12 queue
    dict(name="c12-enqueue-stores-reference", file=ST, checks=["C12"],
         old="        new_frame = RF24NetworkFrame()\n        new_frame.unpack(frame.pack())\n        self._queue.append(new_frame)", new="        self._queue.append(frame)"),
    dict(name="c12-toggle-classes-swapped", file=MX, checks=["C12", "C11"],
         old="            if enabled:\n                self.queue = FrameQueueFrag(self.queue)\n            else:\n                self.queue = FrameQueue(self.queue)",
         new="            if not enabled:\n                self.queue = FrameQueueFrag(self.queue)\n            else:\n                self.queue = FrameQueue(self.queue)"),
    # ---- C11 formats
    dict(name="c11-short-buffer-limit-7", file=ST, checks=["C11"], old="        if len(buffer) < 8:\n            return False", new="        if len(buffer) < 7:\n            return False"),
    dict(name="c11-last-fragment-keeps-counter", file=MX, checks=["C11"],
         old="                    self.frame_buf.header.reserved = msg_t\n", new=""),
    dict(name="c11-fragment-size-23", file=MX, checks=["C11"],
         old="                buf_end = count * MAX_FRAG_SIZE + MAX_FRAG_SIZE\n", new="                buf_end = count * MAX_FRAG_SIZE + MAX_FRAG_SIZE - (count == 1)\n"),
    # ---- C01 / C02 core
    dict(name="c01-ask-no-ack-command-dropped", file=RF, checks=["C01"],
         old="self._reg_write_bytes(0xA0 | (bool(ask_no_ack) << 4), buf)", new="self._reg_write_bytes(0xA0, buf)"),
    dict(name="c02-resend-on-empty-fifo-transmits-flag", file=RF, checks=["C02"],
         old="        if self.fifo(True, True):\n            return False", new="        if self.fifo(True, True):\n            return True"),
    # ---- C18 / C19 BLE
    dict(name="c18-pdu-header-0x02", file=BLE, checks=["C18", "C19"], old="0x42", new="0x02", nth=0),
    dict(name="c19-packet-queued-twice", file=BLE, checks=["C19"],
         old="                self.rx_queue.append(QueueElement(self.rx_cache))\n",
         new="                self.rx_queue.append(QueueElement(self.rx_cache))\n                self.rx_queue.append(QueueElement(self.rx_cache))\n"),
    # ---- C15 robustness
    dict(name="c15-invalid-destination-forwarded", file=MX, checks=["C15"],
         old="                or not is_address_valid(temp_buf[2] | (temp_buf[3] << 8))\n", new=""),
    # ---- C04 routing arithmetic
    dict(name="c04-descendant-of-descendant-mask", file=MX, checks=["C04"],
         old="conv_to_node = to_node & ((self._mask << 3) | 7)", new="conv_to_node = to_node & ((self._mask << 3) | 3)"),
    # ---- C05 delivery
    dict(name="c05-tx-standby-gives-up-at-once", file=MX, checks=["C05", "C13"],
         old="        while not result and time.monotonic_ns() < timeout:\n            result = self._rf24.resend(send_only=True)",
         new="        while not result and time.monotonic_ns() > timeout:\n            result = self._rf24.resend(send_only=True)"),
]

LITE = "circuitpython_nrf24l01/rf24_lite.py"
SPECS += [
    # ---- second batch: more clauses never seen firing
    dict(name="c01-any-masks-32", file=RF, checks=["C01", "C10"], old="                return last_dyn_size\n", new="                return last_dyn_size & 0x1F\n"),
    dict(name="c01-32-bytes-rejected", file=RF, checks=["C01"], old="        elif not buf or len(buf) > 32:\n            raise ValueError(\"buffer must", new="        elif not buf or len(buf) >= 32:\n            raise ValueError(\"buffer must"),
    dict(name="c02-list-send-drops-last-result", file=RF, checks=["C02"], old="            return result  # type: ignore[return-value]", new="            return result[:-1] or result  # type: ignore[return-value]"),
    dict(name="c04-every-descendant-is-a-child", file=MX, checks=["C04"], old="            if not to_node & (self._mask_inv << 3):", new="            if True:"),
    dict(name="c10-update-returns-none", file=RF, checks=["C10"], old="        self._reg_write(0xFF)\n        return True", new="        self._reg_write(0xFF)\n        return None"),
    dict(name="c10-clear-flags-flushes-rx", file=RF, checks=["C10"], old='        """This clears the interrupt flags in the status register."""\n', new='        """This clears the interrupt flags in the status register."""\n        self.flush_rx()\n'),
    dict(name="c15-stops-draining-at-invalid-frame", file=MX, checks=["C15"], old="                continue  # frame_buf keeps the last frame that was actually handled", new="                return ret_val"),
    dict(name="c15-poll-reply-sleeps-seconds", file=MX, checks=["C15"], old="                            time.sleep(self._parent_pipe / 1000)", new="                            time.sleep(self._parent_pipe * 2)"),
    dict(name="c16-lease-filed-under-next-id", file=MESH, checks=["C16"], old="                self.set_address(self.frame_buf.header.reserved, new_addr)", new="                self.set_address((self.frame_buf.header.reserved + 1) & 0xFF, new_addr)"),
    dict(name="c17-lookup-releases-the-asker", file=MESH, checks=["C17"],
         old="                self.frame_buf.header.to_node = self.frame_buf.header.from_node\n\n                ret_val = 0",
         new="                self.frame_buf.header.to_node = self.frame_buf.header.from_node\n                self.release_address(self.frame_buf.header.from_node)\n\n                ret_val = 0"),
    dict(name="c18-mac-int-big-endian", file=BLE, checks=["C18"], old='self._mac = (address).to_bytes(6, "little")', new='self._mac = (address).to_bytes(6, "big")'),
    dict(name="c19-crc-not-checked", file=BLE, checks=["C19"], old="            if end < 30 and self.rx_cache[end : end + 3] == crc24_ble(\n                self.rx_cache[:end]\n            ):", new="            if end < 30:"),
    dict(name="c19-read-keeps-element", file=BLE, checks=["C19"], old="            ret_val = self.rx_queue[0]\n            del self.rx_queue[0]\n", new="            ret_val = self.rx_queue[0]\n"),
    dict(name="c19-read-lifo", file=BLE, checks=["C19"], old="            ret_val = self.rx_queue[0]\n            del self.rx_queue[0]\n", new="            ret_val = self.rx_queue[-1]\n            del self.rx_queue[-1]\n"),
    dict(name="c09-enter-leaves-power-off", file=RF, checks=["C09"], old="        self._ce_pin.value = False\n        self._config |= 2\n", new="        self._ce_pin.value = False\n        self._config |= 0\n"),
    dict(name="c12-enqueue-changes-callers-type", file=ST, checks=["C12"], old="        new_frame = RF24NetworkFrame()\n        new_frame.unpack(frame.pack())\n", new="        new_frame = RF24NetworkFrame()\n        new_frame.unpack(frame.pack())\n        frame.header.reserved = 1\n"),
    dict(name="c20-lite-load_ack-pipe6", file=LITE, checks=["C20"], old="        if 0 <= pipe_num <= 5 and buf and len(buf) <= 32:", new="        if 0 <= pipe_num <= 6 and buf and len(buf) <= 32:"),
    dict(name="c20-lite-load_ack-ignores-full-fifo", file=LITE, checks=["C20"], old="            if not self.tx_full:\n                self._reg_write_bytes(0xA8 | pipe_num, buf)", new="            if True:\n                self._reg_write_bytes(0xA8 | pipe_num, buf)"),
    dict(name="c20-lite-load_ack-returns-none", file=LITE, checks=["C20"], old="                self._reg_write_bytes(0xA8 | pipe_num, buf)\n                return True", new="                self._reg_write_bytes(0xA8 | pipe_num, buf)\n                return None"),
    dict(name="c07-multicast-leaves-pipe0-auto-ack", file=MX, checks=["C07"], old="        self._rf24.listen = True\n        if not is_multicast:\n            self._rf24.auto_ack = 0x3E\n        return result", new="        self._rf24.listen = True\n        return result"),
    dict(name="c05-routed-frame-also-queued", file=MX, checks=["C05"], old="                # pass it along\n                self._write(self.frame_buf.header.to_node, TX_ROUTED)\n                return (True, 0)", new="                # pass it along\n                self.queue.enqueue(self.frame_buf)\n                self._write(self.frame_buf.header.to_node, TX_ROUTED)\n                return (True, 0)"),
    dict(name="c06-more-fragment-any-counter", file=ST, checks=["C06"], old="                elif self._frags.header.reserved - 1 != frame.header.reserved:", new="                elif self._frags.header.reserved - 1 < frame.header.reserved:"),
]

SPECS += [
    # ---- third batch
    dict(name="c14-multicast-always-cut-to-24", file=MX, checks=["C14"], old="        if not self._validate_msg_len(len(message)):\n            message = message[:MAX_FRAG_SIZE]\n        level = self._net_lvl",
         new="        message = message[:MAX_FRAG_SIZE]\n        level = self._net_lvl"),
    dict(name="c14-mclevel-setter-opens-old-level", file=MX, checks=["C14", "C07"], old="        lvl = min(4, max(lvl, 0))\n        self._net_lvl = lvl\n        self._rf24.listen = False\n        self._rf24.open_rx_pipe(0, self._pipe_address(_lvl_2_addr(lvl), 0))",
         new="        lvl = min(4, max(lvl, 0))\n        self._rf24.listen = False\n        self._rf24.open_rx_pipe(0, self._pipe_address(_lvl_2_addr(self._net_lvl), 0))\n        self._net_lvl = lvl"),
    dict(name="c18-hop-to-81", file=BLE, checks=["C18"], old="BLE_FREQ = (2, 26, 80)", new="BLE_FREQ = (2, 26, 81)"),
    dict(name="c18-name-limit-plus-one", file=BLE, checks=["C18"], old="            if len(_name) > (18 - self._show_dbm * 3):", new="            if len(_name) > (19 - self._show_dbm * 3):"),
    dict(name="c18-show-pa-limit", file=BLE, checks=["C18"], old="len(self._ble_name) > 16:", new="len(self._ble_name) > 17:"),
    dict(name="c18-hop-stuck-at-39", file=BLE, checks=["C18"], old="        self._curr_freq += 1 if self._curr_freq < 2 else -2", new="        self._curr_freq += 1 if self._curr_freq < 2 else 0"),
    dict(name="c11-header-unpack-swaps-to-from", file=ST, checks=["C11"], old="            self.from_node,\n            self.to_node,\n            self.frame_id,", new="            self.to_node,\n            self.from_node,\n            self.frame_id,"),
    dict(name="c11-frame-unpack-drops-first-message-byte", file=ST, checks=["C11"], old="            self.message = buffer[8:]", new="            self.message = buffer[9:]"),
    dict(name="c09-enter-skips-tx-addr-when-equal-pipe0", file=RF, checks=["C09", "C03"], old="        self._reg_write_bytes(TX_ADDRESS, self._tx_address)", new="        if self._tx_address != self._pipes[0]:\n            self._reg_write_bytes(TX_ADDRESS, self._tx_address)"),
    dict(name="c10-read-length-arg-ignored", file=RF, checks=["C10", "C19"], old="        return_size = length if length is not None else self.any()", new="        return_size = self.any()"),
    dict(name="c03-arc-masks-3-bits", file=RF, checks=["C03"], old="        self._retry_setup = (self._retry_setup & 0xF0) | count", new="        self._retry_setup = (self._retry_setup & 0xF0) | (count & 7)"),
    dict(name="c13-acks-multicast-frames", file=MX, checks=["C13", "C14"], old="                send_type == TX_ROUTED\n                and to_node == write_direct\n                and self.frame_buf.header.from_node != self._addr", new="                to_node == write_direct\n                and self.frame_buf.header.from_node != self._addr"),
]
