#!/bin/bash
# usage: tools/allquick.sh <seed> [tier]  -- run every registered check once, print one line each
seed=${1:-1}; tier=${2:-quick}
cd /verif
for i in $(seq -w 1 20); do
  p=C$i; t0=$(date +%s)
  out=$(VERIF_SEED=$seed ./run.py $p --tier $tier 2>&1); rc=$?
  echo "$p rc=$rc $(($(date +%s)-t0))s :: $(echo "$out" | grep -E "seed=" | cut -c1-140) $(echo "$out" | grep -cE '^VIOLATION') viol $(echo "$out" | grep -c '^KNOWN') known"
  [ $rc -ne 0 ] && echo "$out" | grep -E "^  C[0-9]+/|HARNESS" | head -5
done
