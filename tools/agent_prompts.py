#!/usr/bin/env python3
"""Regenerates the prompts for a round of seeded-change agents (one per property).
usage: tools/agent_prompts.py <round-tag e.g. r8> <outdir>   -> <outdir>/Cxx<tag>.txt
An agent gets the property's text, the summaries of the changes already kept for it (so that it looks for
something different in kind) and a scratch worktree; nothing about the checks."""
import glob, json, os, sys

tag, outdir = sys.argv[1], sys.argv[2]
here = os.path.dirname(os.path.dirname(os.path.abspath(__file__)))
os.makedirs(outdir, exist_ok=True)
ANGLE = {
    "r9": "This round, prefer one of: (a) a defect that only shows under a particular interleaving or timing between two or three nodes / radios "
          "(a frame arriving while a call is in progress, two payloads in the RX FIFO at once, an ACK arriving late, a node busy transmitting "
          "when it is addressed); (b) a fault at one particular point of a multi-step exchange (the k-th packet or only its ACK lost, a peer that "
          "stops listening half way, a full queue or full FIFO at the wrong moment, an exception raised by a callback or by invalid user input "
          "in the middle of a sequence) after which state is left inconsistent; (c) a long-running program: values that drift or wrap after many "
          "operations, tables that fill up, entries that are never evicted, caches that go stale after a node moves or re-joins; "
          "(d) an edit in a helper that several public calls share, which is only wrong for ONE of its callers; "
          "(e) an interaction between two features that are each fine alone (ACK payloads x dynamic payloads off on some pipe, fragmentation x "
          "multicast relay, mesh x a node that is also a relay, FakeBLE x another driver object on the same radio, address width 3 x pipes 2-5 ...). "
          "Avoid module-level / class-level shared mutable defaults (already done several times).",
    "r8": "This round, prefer one of: (a) two cooperating edits in different functions or files that each look harmless alone; "
          "(b) state that survives across calls or objects (a cached value, a counter that wraps - frame ids are 16 bit, radio packet ids 2 bit, "
          "fragment counters, lease tables - a buffer that is reused, a flag that is not cleared on an error path); "
          "(c) a failure that needs an exception, a refused call, a timeout or a lost packet at one particular point of a multi-step operation; "
          "(d) behaviour at a boundary of a documented range that ordinary use never touches (last channel, last pipe, largest message, deepest level, "
          "largest id, longest name, coldest temperature ...); (e) an argument form the documentation allows but examples never use "
          "(tuple instead of list, bytearray / memoryview instead of bytes, bool instead of int, keyword instead of positional).",
}
for line in open(os.path.join(here, "properties.jsonl")):
    p = json.loads(line)
    pid = p["id"]
    prev = []
    for m in sorted(glob.glob(os.path.join(here, "seeded", pid + "*-*", "meta.json"))):
        try:
            prev.append("- " + json.load(open(m))["summary"].strip().replace("\n", " ")[:400])
        except Exception:
            pass
    wt = f"/tmp/wt/{pid}{tag}"
    out = f"/tmp/agentout/{pid}{tag}"
    txt = f"""You are helping to evaluate a verification effort for the Python library CircuitPython_nRF24L01 (a driver for the nRF24L01 radio with
an RF24Network-style tree-routing layer, fragmentation, a mesh address layer and fake-BLE advertising).

Your scratch git worktree of the library is {wt} (already created, detached HEAD). Work ONLY there. Never read or write /repo or /verif.
Run python as /venv/bin/python. The test-suite is run from the worktree root with
    /venv/bin/python -m pytest -q -p no:cacheprovider tests
and must still end with "208 passed, 55 xfailed, 1 xpassed" after your change.

PROPERTY {pid} - {p['title']}
{p['statement']}
(quantified over: {p['quantifier']})
(code anchors: {json.dumps(p['anchors'])})

TASK: produce TWO independent, different changes to the library source (under {wt}/circuitpython_nrf24l01/) that each BREAK this
property while the library still imports, and the existing test-suite still passes unchanged. Each must look like a plausible
maintenance edit (refactor, optimisation, "simplification", bug-fix attempt gone wrong) - not sabotage that ordinary use would expose at once.
Each change must need something SPECIFIC to manifest: a particular interleaving or timing, a fault / lost packet / refused call at a
particular point, a multi-step sequence of operations, an unusual but documented-legal input, or two cooperating sites that each look fine alone.
{ANGLE.get(tag, '')}

Changes of the following kinds were already produced for this property - do NOT repeat them or near variants; find something different in kind
(another function, another mechanism, another trigger):
{chr(10).join(prev) if prev else '- (none yet)'}

For each change k in (1, 2) write into {out}/ (create the directory):
  patch{{k}}.diff  - `git diff` of the worktree with ONLY that change (relative paths, applies with `git apply` at the worktree root on a clean checkout)
  demo{{k}}.py     - a standalone program, run as `/venv/bin/python {out}/demo{{k}}.py` with the worktree root as current directory (so
                    `import circuitpython_nrf24l01` must pick up the worktree: begin the demo with `import os, sys; sys.path.insert(0, os.getcwd())`,
                    because a script's own directory, not the current directory, is on sys.path and an installed copy would be imported instead), that exits 0 on the unchanged library and exits non-zero
                    (assertion / explicit sys.exit(1)) with the change applied. It must be deterministic, finish in under 60 s, use no network, no
                    real hardware and nothing outside the standard library + the worktree: build whatever fake SPI / radio / air you need inside
                    the demo (the tests' conftest shows how a fake spidev is injected; you will usually need something more behavioural - e.g. a
                    small simulated radio FIFO/ACK model and two or more driver objects exchanging payloads). The demo must show the PROPERTY being
                    violated as a user would observe it (wrong bytes delivered, wrong return value, wrong register contents, deaf node, exception, ...),
                    not merely that a private function changed.
  meta{{k}}.json   - {{"property": "{pid}", "summary": "<what was changed, one or two sentences>", "needs": "<what is needed for the violation to manifest>",
                    "why_tests_pass": "<why the existing tests do not notice>"}}

Procedure you must follow for each change: start from a clean worktree (`git checkout -- .`), make the edit, run the test-suite (must give the
exact counts above), run the demo (must fail), save the diff, `git checkout -- .`, run the demo again (must pass). Leave the worktree clean at the end.
Verify everything yourself before you finish; report in your final message, for each change, the summary, and the observed test-suite line and
demo exit codes with/without the patch. If you cannot find a second change that satisfies all conditions, deliver one.
"""
    open(os.path.join(outdir, f"{pid}{tag}.txt"), "w").write(txt)
print("written", outdir)
