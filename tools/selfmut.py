#!/usr/bin/env python3
"""usage: tools/selfmut.py [name-substring ...]   -- apply each spec of tools/selfmut_specs.py to a scratch worktree of /repo's HEAD,
run the repository tests and the named quick checks against it (VERIF_REPO / VERIF_OUT), print one line per mutant and
write seeded/selfmut_results.json.  /repo itself is never touched."""
import json, os, subprocess, sys, shutil
sys.path.insert(0, os.path.dirname(__file__))
from selfmut_specs import SPECS

WT, OUT = "/tmp/wt/selfmut", "/tmp/selfmut_out"
sel = sys.argv[1:]
subprocess.run(["git", "-C", "/repo", "worktree", "remove", "--force", WT], capture_output=True)
subprocess.run(["git", "-C", "/repo", "worktree", "add", "-q", "--detach", WT, "HEAD"], check=True)
results = {}
resfile = "/verif/seeded/selfmut_results.json"
if os.path.exists(resfile):
    results = json.load(open(resfile))
try:
    for sp in SPECS:
        if sel and not any(s in sp["name"] for s in sel):
            continue
        subprocess.run(["git", "-C", WT, "checkout", "--", "."], check=True)
        path = os.path.join(WT, sp["file"])
        src = open(path).read()
        n = src.count(sp["old"])
        if n == 0 or (n > 1 and "nth" not in sp):
            print("%-45s SPEC ERROR: old occurs %d times" % (sp["name"], n)); continue
        if "nth" in sp:
            parts = src.split(sp["old"])
            k = sp["nth"]
            src = sp["old"].join(parts[:k + 1]) + sp["new"] + sp["old"].join(parts[k + 1:])
        else:
            src = src.replace(sp["old"], sp["new"], 1)
        open(path, "w").write(src)
        t = subprocess.run(["/venv/bin/python", "-m", "pytest", "-q", "-p", "no:cacheprovider", "tests"], cwd=WT, capture_output=True, text=True)
        tests = t.stdout.strip().splitlines()[-1] if t.stdout.strip() else "?"
        tests_ok = "208 passed, 55 xfailed, 1 xpassed" in tests
        row = {"tests_pass": tests_ok, "checks": {}}
        for c in sp["checks"]:
            shutil.rmtree(OUT, ignore_errors=True)
            env = dict(os.environ, VERIF_REPO=WT, VERIF_OUT=OUT, VERIF_SEED="1")
            r = subprocess.run(["/verif/run.py", c, "--tier", "quick"], capture_output=True, text=True, env=env, cwd="/verif")
            sigs = [l.strip().split(" x")[0] for l in r.stdout.splitlines() if l.startswith("  C")]
            row["checks"][c] = {"rc": r.returncode, "signatures": sigs[:8]}
        results[sp["name"]] = row
        caught = [c for c, v in row["checks"].items() if v["rc"] == 1]
        print("%-45s tests:%s  %s  %s" % (sp["name"], "pass" if tests_ok else "FAIL", "CAUGHT by " + ",".join(caught) if caught else ("** HARNESS ERROR (rc 2) **" if any(v["rc"] == 2 for v in row["checks"].values()) else "** SURVIVED **"),
                                          "; ".join(s for v in row["checks"].values() for s in v["signatures"][:3])[:150]))
        sys.stdout.flush()
finally:
    subprocess.run(["git", "-C", "/repo", "worktree", "remove", "--force", WT], capture_output=True)
    shutil.rmtree(OUT, ignore_errors=True)
    json.dump(results, open(resfile, "w"), indent=1, sort_keys=True)
