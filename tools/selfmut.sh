#!/bin/bash
# usage: tools/selfmut.sh <file-in-repo> <Cxx> <<< "sed-expr lines"   -- apply each sed expression as a one-line mutant
f=$1; p=$2
while IFS= read -r expr; do
  [ -z "$expr" ] && continue
  cd /repo; sed -i "$expr" $f
  if git diff --quiet; then echo "NOCHANGE: $expr"; continue; fi
  t=$(/venv/bin/python -m pytest -q -p no:cacheprovider tests 2>&1 | tail -1 | grep -o "[0-9]* failed" )
  cd /verif; out=$(./run.py $p --tier quick 2>&1); rc=$?
  echo "rc=$rc tests:[${t:-pass}] $expr :: $(echo "$out" | grep -E '^  C[0-9]+/' | head -2 | cut -c1-110 | tr '\n' '|')"
  rm -rf /verif/replays/*/found_*.json; git -C /repo checkout -- .
done
