#!/bin/bash
# usage: tools/mut.sh <patch> <Cxx> [more Cxx...]   -- apply patch to /repo, run quick checks, revert
patch=$1; shift
cd /repo || exit 2
if ! git diff --quiet; then echo "/repo dirty"; exit 2; fi
git apply "$patch" || { echo "patch does not apply"; exit 2; }
cd /verif
for p in "$@"; do
  out=$(VERIF_SEED=${VERIF_SEED:-1} ./run.py $p --tier ${TIER:-quick} 2>&1); rc=$?
  echo "== $p rc=$rc"; echo "$out" | grep -E "VIOLATION|KNOWN|HARNESS|seed=" | head -8
  echo "$out" | grep -E "^  C[0-9]+/" | head -5
done
rm -rf /verif/replays/*/found_*.json
git -C /repo checkout -- .
