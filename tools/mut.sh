#!/bin/bash
# usage: tools/mut.sh <patch> <Cxx> [more Cxx...]
# Runs the quick checks against a seeded change.  The change is applied to a scratch worktree of /repo's HEAD
# (VERIF_REPO points the checks there, VERIF_OUT keeps their evidence/replays out of /verif), so /repo itself is
# never touched and long sweeps against /repo can keep running.  MUT_INPLACE=1 applies to /repo instead.
patch=$(realpath "$1"); shift
wt=/tmp/wt/mut.$$; out=/tmp/mutout.$$
if [ -n "$MUT_INPLACE" ]; then
  cd /repo || exit 2
  if ! git diff --quiet; then echo "/repo dirty"; exit 2; fi
  git apply "$patch" || { echo "patch does not apply"; exit 2; }
  wt=/repo
else
  git -C /repo worktree add -q --detach "$wt" HEAD || exit 2
  git -C "$wt" apply "$patch" || { echo "patch does not apply"; git -C /repo worktree remove --force "$wt"; exit 2; }
fi
cd /verif
for p in "$@"; do
  out_txt=$(VERIF_REPO=$wt VERIF_OUT=$out VERIF_SEED=${VERIF_SEED:-1} ./run.py $p --tier ${TIER:-quick} 2>&1); rc=$?
  echo "== $p rc=$rc"; echo "$out_txt" | grep -E "VIOLATION|KNOWN|HARNESS|seed=" | head -8
  echo "$out_txt" | grep -E "^  C[0-9]+/" | head -5
done
rm -rf "$out"
if [ -n "$MUT_INPLACE" ]; then git -C /repo checkout -- .; else git -C /repo worktree remove --force "$wt"; fi
