#!/bin/bash
# usage: tools/keep_mutant.sh <Cxx> <k> "<caught-by text>"  -- confirm an agent-made change in a scratch worktree and keep it
pid=$1; k=$2; caught=$3
src=/tmp/agentout/$pid
wt=/tmp/wt/confirm
[ -d $wt ] || git -C /repo worktree add -q --detach $wt HEAD
cd $wt && git checkout -q --detach $(git -C /repo rev-parse HEAD) && git checkout -- . 
git apply $src/patch$k.diff || { echo "APPLY FAILED"; exit 1; }
t=$(/venv/bin/python -m pytest -q -p no:cacheprovider tests 2>&1 | tail -1)
/venv/bin/python $src/demo$k.py >/tmp/demo_with.txt 2>&1; rc_with=$?
git checkout -- .
/venv/bin/python $src/demo$k.py >/tmp/demo_without.txt 2>&1; rc_without=$?
echo "tests: $t | demo with patch rc=$rc_with | without rc=$rc_without"
case "$t" in *"208 passed, 55 xfailed, 1 xpassed"*) ;; *) echo "TESTS DIFFER - not kept"; exit 1;; esac
[ $rc_with -ne 0 ] && [ $rc_without -eq 0 ] || { echo "DEMO does not discriminate - not kept"; exit 1; }
d=/verif/seeded/$pid-$k; mkdir -p $d
cp $src/patch$k.diff $d/patch.diff; cp $src/demo$k.py $d/demo.py
/venv/bin/python - "$src/meta$k.json" "$d/meta.json" "$t" "$caught" "$(git -C /repo rev-parse --short HEAD)" <<'PY'
import json, sys
m = json.load(open(sys.argv[1]))
m["confirmed"] = {"base_commit": sys.argv[5], "tests_with_patch": sys.argv[3], "demo_with_patch": "exit 1 (FAIL)", "demo_without_patch": "exit 0 (PASS)",
                  "how": "scratch worktree of /repo: git apply patch.diff; pytest tests; demo.py; git checkout -- .; demo.py"}
m["caught_by"] = sys.argv[4]
json.dump(m, open(sys.argv[2], "w"), indent=1)
PY
echo kept $d
