#!/venv/bin/python
"""Entry point:  run.py <Cxx> --tier quick|thorough [--replay file]   |   run.py --setup"""
import argparse
import os
import sys

sys.dont_write_bytecode = True
HERE = os.path.dirname(os.path.abspath(__file__))
sys.path.insert(0, HERE)
if os.environ.get("PYTHONHASHSEED") != "0":
    # a run is a pure function of the code and VERIF_SEED: fix the string-hash seed and start over
    os.environ["PYTHONHASHSEED"] = "0"
    os.execv(sys.executable, [sys.executable] + sys.argv)

CHECKS = {
    "C01": "c01_link", "C02": "c02_send", "C03": "c03_config", "C04": "c04_routing", "C05": "c05_delivery",
    "C06": "c06_reassembly", "C07": "c07_listen", "C08": "c08_pipe0", "C09": "c09_context", "C10": "c10_fifo",
    "C11": "c11_wire", "C12": "c12_queue", "C13": "c13_netack", "C14": "c14_multicast", "C15": "c15_robust",
    "C16": "c16_dhcp", "C17": "c17_mesh", "C18": "c18_ble_tx", "C19": "c19_ble_rx", "C20": "c20_lite",
}


def setup():
    import subprocess
    deps = os.path.join(HERE, ".deps")
    try:
        import hypothesis  # noqa: F401
    except ImportError:
        os.makedirs(deps, exist_ok=True)
        subprocess.check_call([sys.executable, "-m", "pip", "install", "--no-index", "--find-links",
                               "/opt/veriftools/wheels", "--target", deps, "hypothesis"])
    try:
        sys.path.append(deps)
        import atheris  # noqa: F401
    except ImportError:
        os.makedirs(deps, exist_ok=True)
        subprocess.call([sys.executable, "-m", "pip", "install", "--no-index", "--find-links",
                         "/opt/veriftools/wheels", "--target", deps, "atheris"])
    from vlib import boot
    boot.lib()
    from vlib.sim import selftest
    selftest.run(verbose=True)
    print("setup ok")
    return 0


def main():
    ap = argparse.ArgumentParser()
    ap.add_argument("prop", nargs="?")
    ap.add_argument("--tier", default=os.environ.get("VERIF_TIER", "quick"), choices=["quick", "thorough"])
    ap.add_argument("--replay")
    ap.add_argument("--setup", action="store_true")
    a = ap.parse_args()
    if a.setup:
        return setup()
    if a.prop not in CHECKS:
        print("unknown property", a.prop)
        return 2
    try:
        seed = int(os.environ.get("VERIF_SEED", "1"))
    except ValueError:
        seed = 1
    try:
        from vlib import boot
        boot.lib()
        from vlib.sim import selftest
        selftest.run(verbose=False, brief=True)
        from vlib.harness import runner
        if a.replay:
            return runner.run_replay(CHECKS[a.prop], a.replay)
        return runner.main(CHECKS[a.prop], a.tier, seed)
    except SystemExit:
        raise
    except BaseException:  # noqa: BLE001 - harness errors are exit 2, never a VIOLATION
        import traceback
        traceback.print_exc()
        print("HARNESS ERROR")
        return 2


if __name__ == "__main__":
    sys.exit(main())
