"""Enhanced ShockBurst timing from the nRF24L01+ product specification (7.4, 7.5, 6.1.7).
Independent of the simulator's code; used for time bounds (C02, C13) and legal-ARD rules."""

RATE_BPS = {1: 1_000_000, 2: 2_000_000, 250: 250_000}
T_SETTLE_NS = 130_000


def air_ns(rate, aw, payload_len, crc, esb=True):
    bits = 8 * (1 + aw + payload_len + crc) + (9 if esb else 0)
    return bits * 1_000_000_000 // RATE_BPS[rate]


def ard_ns(code):
    return (code + 1) * 250_000


def min_ard_code(rate, aw, crc, ack_payload_len):
    """smallest ARD code whose window holds turn-around + a complete ACK packet"""
    need = T_SETTLE_NS + air_ns(rate, aw, ack_payload_len, crc)
    for code in range(16):
        if ard_ns(code) > need + 10_000:
            return code
    return 15


def send_bound_ns(rate, aw, crc, payload_len, arc, ard_code, force_retry, needs_ack):
    """upper bound on the radio time of one send(): every attempt is settle + air + ARD"""
    per_attempt = T_SETTLE_NS + air_ns(rate, aw, payload_len, crc) + (ard_ns(ard_code) if needs_ack else 0)
    attempts = (1 + arc) * (1 + force_retry) if needs_ack else 1
    return attempts * per_attempt
