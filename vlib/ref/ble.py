"""Bit-serial BLE link layer for advertising packets, written from the Bluetooth Core
Specification (Vol 6 Part B: 2.3 advertising PDUs, 3.1.1 CRC, 3.2 data whitening; Core
Supplement Part A for AD structures; IEEE-11073 FLOAT for the Health Thermometer; the
Eddystone-URL frame).  Imports nothing from the library under test.

Conventions: a BLE byte stream is transmitted least significant bit first.  The nRF24L01
clocks every payload byte out most significant bit first, so the BLE byte stream seen by a
BLE receiver is the radio payload with the bits of every byte reversed."""
import struct

RF_CH_TO_BLE = {2: 37, 26: 38, 80: 39}
ACCESS_ADDRESS = 0x8E89BED6


def rev8(b):
    r = 0
    for i in range(8):
        if b & (1 << i):
            r |= 0x80 >> i
    return r


def radio_payload_to_ble_bytes(payload):
    return bytes(rev8(b) for b in payload)


def ble_bytes_to_radio_payload(data):
    return bytes(rev8(b) for b in data)


def to_bits(data):
    """LSBit first, as on air"""
    for b in data:
        for i in range(8):
            yield (b >> i) & 1


def from_bits(bits):
    out, cur, n = bytearray(), 0, 0
    for b in bits:
        cur |= b << n
        n += 1
        if n == 8:
            out.append(cur)
            cur, n = 0, 0
    return bytes(out)


def whiten(data, channel):
    """3.2: 7-bit LFSR x^7 + x^4 + 1; position 0 = 1, positions 1..6 = channel index MSB..LSB"""
    reg = [1] + [(channel >> (5 - i)) & 1 for i in range(6)]
    out = []
    for b in to_bits(data):
        o = reg[6]
        out.append(b ^ o)
        reg = [o, reg[0], reg[1], reg[2], reg[3] ^ o, reg[4], reg[5]]
    return from_bits(out)


def crc24(pdu, init=0x555555):
    """3.1.1: polynomial x^24 + x^10 + x^9 + x^6 + x^4 + x^3 + x + 1, preset 0x555555, PDU bits
    LSBit first; returned as the three bytes of the on-air stream (CRC MSBit transmitted first)"""
    reg = init
    for b in to_bits(pdu):
        fb = ((reg >> 23) & 1) ^ b
        reg = (reg << 1) & 0xFFFFFF
        if fb:
            reg ^= 0x00065B
    bits = [(reg >> (23 - i)) & 1 for i in range(24)]
    return from_bits(bits)


def ad(ad_type, data):
    return bytes([len(data) + 1, ad_type & 0xFF]) + bytes(data)


def build_pdu(mac, ad_structures, header=0x42):
    body = bytes(mac) + b"".join(ad_structures)
    return bytes([header, len(body)]) + body


def encode_radio_payload(pdu, channel, pad_to=32, corrupt_crc=False):
    crc = crc24(pdu)
    if corrupt_crc:
        crc = bytes([crc[0] ^ 1]) + crc[1:]
    stream = whiten(pdu + crc, channel)
    out = ble_bytes_to_radio_payload(stream)
    if len(out) < pad_to:
        out += bytes(pad_to - len(out))
    return out[:32]


def parse_radio_payload(payload, channel):
    """-> dict(header, length, mac, ads=[(type, data)], crc_ok, raw_ad, total) or dict(error=...)"""
    stream = whiten(radio_payload_to_ble_bytes(payload), channel)
    if len(stream) < 2:
        return {"error": "shorter than a PDU header"}
    header, length = stream[0], stream[1] & 0x3F
    total = 2 + length + 3
    if total > len(stream):
        return {"error": "length byte %d exceeds the %d byte radio payload" % (stream[1], len(stream)), "header": header}
    pdu = stream[:2 + length]
    crc = stream[2 + length:total]
    if length < 6:
        return {"error": "PDU payload shorter than an address", "header": header}
    mac = pdu[2:8]
    ads, pos, raw = [], 8, pdu[8:]
    bad = None
    while pos < len(pdu):
        n = pdu[pos]
        if n == 0 or pos + 1 + n > len(pdu):
            bad = "AD structure at offset %d overruns the PDU" % pos
            break
        ads.append((pdu[pos + 1], bytes(pdu[pos + 2:pos + 1 + n])))
        pos += 1 + n
    return {"header": header, "length_byte": stream[1], "length": length, "mac": bytes(mac), "ads": ads, "raw_ad": bytes(raw),
            "crc_ok": crc == crc24(pdu), "total": total, "ad_error": bad, "pdu": bytes(pdu)}


# ---------------------------------------------------------------------------- service data codecs
def temperature_bytes(mantissa):
    """IEEE-11073 32-bit FLOAT, exponent -2: 24-bit two's complement mantissa + 0xFE"""
    return struct.pack("<i", mantissa)[:3] + b"\xfe"


def temperature_value(data):
    m = int.from_bytes(data[:3], "little", signed=True)
    e = struct.unpack("b", data[3:4])[0] if len(data) > 3 else -2
    return m * 10.0 ** e


URL_PREFIX = ["http://www.", "https://www.", "http://", "https://"]
URL_SUFFIX = [".com/", ".org/", ".edu/", ".net/", ".info/", ".biz/", ".gov/", ".com", ".org", ".edu", ".net", ".info", ".biz", ".gov"]


def eddystone_url_encode(url):
    for i, p in enumerate(URL_PREFIX):
        if url.startswith(p):
            scheme, rest = i, url[len(p):]
            break
    else:
        raise ValueError("url needs a scheme prefix")
    out = bytearray([scheme])
    while rest:
        for i, s in enumerate(URL_SUFFIX):
            if rest.startswith(s):
                out.append(i)
                rest = rest[len(s):]
                break
        else:
            out.append(ord(rest[0]))
            rest = rest[1:]
    return bytes(out)


def eddystone_url_decode(data):
    if not data:
        return ""
    out = URL_PREFIX[data[0]] if data[0] < len(URL_PREFIX) else chr(data[0])
    for b in data[1:]:
        out += URL_SUFFIX[b] if b < len(URL_SUFFIX) else chr(b)
    return out
