"""Octal tree arithmetic and physical pipe addresses of RF24Network, written from the
TMRh20 RF24Network semantics (RF24Network.cpp: is_valid_address, pipe_address,
logicalToPhysicalAddress) and the library's topology documentation.  Imports nothing from
the library under test."""

MULTICAST = 0o100
RESERVED = (0o100, 0o10, 0o1000)
DEFAULT_ADDR = 0o4444
DEFAULT_PREFIX = 0xCC
DEFAULT_SUFFIX = (0xC3, 0x3C, 0x33, 0xCE, 0x3E, 0xE3)


def digits(a):
    """octal digits, least significant first"""
    out = []
    while a:
        out.append(a & 7)
        a >>= 3
    return out


def level(a):
    return len(digits(a))


def is_node_address(a):
    """0, or one to four octal digits each in 1..5"""
    if not isinstance(a, int) or a < 0:
        return False
    d = digits(a)
    return len(d) <= 4 and all(1 <= x <= 5 for x in d)


def is_valid(a):
    """the validity predicate of the property C15: node address or reserved multicast address"""
    if a is None:
        return False
    return a in RESERVED or is_node_address(a)


def all_nodes():
    out = [0]
    frontier = [0]
    for lvl in range(4):
        nxt = []
        for p in frontier:
            for c in range(1, 6):
                nxt.append(p | (c << (3 * lvl)))
        out.extend(nxt)
        frontier = nxt
    return out


def parent(a):
    lv = level(a)
    if lv == 0:
        return None
    return a & ((1 << (3 * (lv - 1))) - 1)


def child_index(a):
    """which child of its parent (1..5): the most significant digit"""
    return digits(a)[-1]


def is_descendant(d, a):
    """d is a strict descendant of a"""
    if d == a:
        return False
    la = level(a)
    return level(d) > la and (d & ((1 << (3 * la)) - 1)) == a


def next_hop(n, dst):
    if is_descendant(dst, n):
        return dst & ((1 << (3 * (level(n) + 1))) - 1)
    return parent(n)


def tree_path(src, dst):
    """nodes visited after src, ending in dst"""
    path, cur = [], src
    while cur != dst:
        cur = next_hop(cur, dst)
        if cur is None or len(path) > 10:
            raise ValueError("no route %o -> %o" % (src, dst))
        path.append(cur)
    return path


def pipe_address(node, pipe, multicast=True, prefix=DEFAULT_PREFIX, suffix=DEFAULT_SUFFIX):
    """5 bytes, index 0 = LSByte = first byte written to the radio"""
    out = [prefix] * 5
    own = (pipe != 0 or node == 0) or not multicast
    count = 1
    dec = node
    while dec:
        if own:
            out[count] = suffix[dec % 8]
        dec //= 8
        count += 1
    if own:
        out[0] = suffix[pipe]
    else:
        out[1] = suffix[count - 1]
    return bytes(out)


def level_node(lvl):
    """the pseudo node whose pipe 0 is the shared address of a network level"""
    return 0 if lvl == 0 else 1 << (3 * (lvl - 1))


def level_address(lvl, prefix=DEFAULT_PREFIX, suffix=DEFAULT_SUFFIX):
    return pipe_address(level_node(lvl), 0, True, prefix, suffix)


def hop_address(n, h, multicast=True, prefix=DEFAULT_PREFIX, suffix=DEFAULT_SUFFIX):
    """on-air address used by node n to reach its tree neighbour h"""
    if parent(n) == h:
        return pipe_address(h, child_index(n), multicast, prefix, suffix)
    if parent(h) == n:
        return pipe_address(h, 5, multicast, prefix, suffix)
    raise ValueError("%o and %o are not neighbours" % (n, h))


def listening_addresses(n, multicast=True, lvl=None, prefix=DEFAULT_PREFIX, suffix=DEFAULT_SUFFIX):
    """the six addresses node n listens on (pipe 0 first)"""
    if multicast:
        p0 = level_address(level(n) if lvl is None else lvl, prefix, suffix)
    else:
        p0 = pipe_address(n, 0, False, prefix, suffix)
    return [p0] + [pipe_address(n, p, multicast, prefix, suffix) for p in range(1, 6)]
