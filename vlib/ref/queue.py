"""Reference model of the frame queue (C12): a bounded, duplicate-free FIFO of value copies.
Written from the documentation of FrameQueue / FrameQueueFrag, imports nothing from the library."""


class RefQueue:
    def __init__(self, max_size=6):
        self.max_size = max_size
        self.items = []  # tuples (from, to, id, type, reserved, message bytes)

    def enqueue(self, fr):
        if len(self.items) >= self.max_size:
            return False
        for it in self.items:
            if it[0] == fr[0] and it[2] == fr[2] and it[3] == fr[3]:
                return False
        self.items.append(tuple(fr))
        return True

    def dequeue(self):
        return self.items.pop(0) if self.items else None

    def peek(self):
        return self.items[0] if self.items else None

    def __len__(self):
        return len(self.items)
