"""Reference fragmenter and TMRh20-style reassembler for RF24Network frames (C05, C06, C11).
Written from RF24Network.cpp (write(): fragmentation loop; appendFragmentToFrame()) and the
library's structs documentation.  Imports nothing from the library under test."""
import struct

FRAG_FIRST, FRAG_MORE, FRAG_LAST = 148, 149, 150
MAX_FRAG = 24


def pack_header(frm, to, fid, typ, reserved):
    return struct.pack("<HHHBB", frm & 0xFFFF, to & 0xFFFF, fid & 0xFFFF, typ & 0xFF, reserved & 0xFF)


def unpack_header(buf):
    return struct.unpack("<HHHBB", bytes(buf[:8]))


def fragment(frm, to, fid, typ, msg):
    """list of on-air frames (bytes) for one message"""
    msg = bytes(msg)
    if len(msg) <= MAX_FRAG:
        return [pack_header(frm, to, fid, typ, 0) + msg]
    total = (len(msg) + MAX_FRAG - 1) // MAX_FRAG
    out = []
    for i in range(total):
        chunk = msg[i * MAX_FRAG:(i + 1) * MAX_FRAG]
        if i == total - 1:
            t, r = FRAG_LAST, typ
        elif i == 0:
            t, r = FRAG_FIRST, total
        else:
            t, r = FRAG_MORE, total - i
        out.append(pack_header(frm, to, fid, t, r) + chunk)
    return out


class Reassembler:
    """single-cache reassembly as in TMRh20's appendFragmentToFrame(): a FIRST starts the cache,
    MORE/LAST must come from the same origin with the same id and the expected descending
    counter; LAST completes the message and restores its type from `reserved`."""

    def __init__(self, max_len=144):
        self.cache = None
        self.max_len = max_len
        self.delivered = []  # (from, to, id, type, message)

    def feed(self, frame):
        frm, to, fid, typ, res = unpack_header(frame)
        body = bytes(frame[8:])
        if typ not in (FRAG_FIRST, FRAG_MORE, FRAG_LAST):
            self.delivered.append((frm, to, fid, typ, body))
            return True
        if typ == FRAG_FIRST:
            if res < 2 or (res - 1) * MAX_FRAG + 1 > self.max_len:
                self.cache = None  # announces more fragments than the longest message can have
                return False
            self.cache = {"from": frm, "to": to, "id": fid, "next": res - 1, "msg": body}
            return True
        c = self.cache
        if c is None or c["from"] != frm or c["id"] != fid:
            return False
        if typ == FRAG_MORE:
            if res != c["next"] or res < 2:
                return False
            c["msg"] += body
            c["next"] = res - 1
            return True
        # LAST: every announced fragment must have arrived
        if c["next"] != 1:
            self.cache = None
            return False
        c["msg"] += body
        self.delivered.append((frm, to, fid, res, c["msg"]))
        self.cache = None
        return True
