"""Reference model of the nRF24L01 configuration registers as the documented RF24 API
programs them (docs/core_api/*.rst + datasheet register map).  Imports nothing from the
library.  `apply(op)` returns the documented outcome kind and updates the model."""

CONFIG, EN_AA, EN_RXADDR, SETUP_AW, SETUP_RETR, RF_CH, RF_SETUP = 0, 1, 2, 3, 4, 5, 6
RX_ADDR_P0, RX_ADDR_P1, TX_ADDR, RX_PW_P0, DYNPD, FEATURE = 0x0A, 0x0B, 0x10, 0x11, 0x1C, 0x1D

OK, VALUE_ERROR, INDEX_ERROR = "ok", "ValueError", "IndexError"


def is_int(v):
    return isinstance(v, int) and not isinstance(v, bool)


class RegModel:
    def __init__(self, snapshot, lite=False):
        """snapshot: register file right after the driver object was constructed"""
        self.r = dict(snapshot)
        for k in (RX_ADDR_P0, RX_ADDR_P1, TX_ADDR):
            self.r[k] = bytes(self.r[k])
        self.user_p0 = None  # address the user last opened pipe 0 with (None: never / closed)
        self.ce = False
        self.lite = lite
        self.alternatives = []  # other acceptable register files after an under-specified call

    # ------------------------------------------------------------------ documented defaults
    @staticmethod
    def documented_defaults():
        return {CONFIG: 0x0C, EN_AA: 0x3F, EN_RXADDR: 0x00, SETUP_AW: 3, SETUP_RETR: 0x5F, RF_CH: 76, RF_SETUP: 0x07,
                DYNPD: 0x3F, FEATURE: 0x05, 0x11: 32, 0x12: 32, 0x13: 32, 0x14: 32, 0x15: 32, 0x16: 32}

    # ------------------------------------------------------------------ helpers
    def _overlay(self, reg, addr):
        cur = bytearray(self.r[reg])
        cur[:len(addr)] = addr
        self.r[reg] = bytes(cur[:5])

    def _bits(self, current, v):
        """bool / int / list forms of auto_ack and dynamic_payloads; None = ValueError"""
        if isinstance(v, bool):
            return 0x3F if v else 0
        if isinstance(v, int):
            return v & 0x3F
        if isinstance(v, (list, tuple)):
            out = current
            for i, x in enumerate(v):
                if i < 6 and x >= 0:
                    out = (out & ~(1 << i)) | (bool(x) << i)
            return out
        return None

    def ack_effective(self):
        return (self.r[FEATURE] & 6) == 6 and bool(self.r[EN_AA] & self.r[DYNPD] & 1)

    # ------------------------------------------------------------------ operations
    def apply(self, op):
        self.alternatives = []
        name, args = op[0], op[1:]
        return getattr(self, "op_" + name)(*args)

    def op_channel(self, v):
        if not is_int(v) or not 0 <= v <= 125:
            return VALUE_ERROR
        self.r[RF_CH] = v
        return OK

    def op_data_rate(self, v):
        code = {1: 0x00, 2: 0x08, 250: 0x20}.get(v) if is_int(v) else None
        if code is None:
            return VALUE_ERROR
        self.r[RF_SETUP] = (self.r[RF_SETUP] & ~0x28) | code
        return OK

    def op_pa_level(self, v):
        lna = True
        if isinstance(v, (list, tuple)) and len(v) > 1:
            lna, v = bool(v[1]), v[0]
        if not is_int(v) or v not in (-18, -12, -6, 0):
            # documentation: "invokes the default of 0 dBm with LNA enabled"; the long-standing
            # behaviour (and the library's own test) is ValueError.  Either is accepted.
            alt = dict(self.r)
            alt[RF_SETUP] = (self.r[RF_SETUP] & 0xF8) | 0x07
            self.alternatives = [alt]
            return "ValueError-or-default"
        self.r[RF_SETUP] = (self.r[RF_SETUP] & 0xF8) | ((3 - v // -6) << 1) | int(lna)
        return OK

    def op_crc(self, v):
        v = max(0, min(2, int(v)))
        self.r[CONFIG] = (self.r[CONFIG] & 0x73) | ({0: 0, 1: 0x08, 2: 0x0C}[v])
        return OK

    def op_address_length(self, v):
        self.r[SETUP_AW] = (v - 2) if is_int(v) and 3 <= v <= 5 else 0
        return OK

    def op_ard(self, v):
        v = max(250, min(int(v), 4000))
        self.r[SETUP_RETR] = (self.r[SETUP_RETR] & 0x0F) | (((v - 250) // 250) << 4)
        return OK

    def op_arc(self, v):
        self.r[SETUP_RETR] = (self.r[SETUP_RETR] & 0xF0) | max(0, min(int(v), 15))
        return OK

    def op_set_auto_retries(self, d, c):
        d = max(250, min(int(d), 4000))
        self.r[SETUP_RETR] = (((d - 250) // 250) << 4) | max(0, min(int(c), 15))
        return OK

    def op_auto_ack(self, v):
        b = self._bits(self.r[EN_AA], v)
        if b is None:
            return VALUE_ERROR
        self.r[EN_AA] = b
        return OK

    def op_set_auto_ack(self, en, pipe):
        if pipe is None:
            self.r[EN_AA] = 0x3F if en else 0
            return OK
        if not 0 <= pipe <= 5:
            return INDEX_ERROR
        self.r[EN_AA] = (self.r[EN_AA] & ~(1 << pipe)) | (bool(en) << pipe)
        return OK

    def _set_dynpd(self, b):
        self.r[DYNPD] = b
        self.r[FEATURE] = (self.r[FEATURE] & 3) | (4 if b else 0)

    def op_dynamic_payloads(self, v):
        b = self._bits(self.r[DYNPD], v)
        if b is None:
            return VALUE_ERROR
        self._set_dynpd(b)
        return OK

    def op_set_dynamic_payloads(self, en, pipe):
        if pipe is None:
            self._set_dynpd(0x3F if en else 0)
            return OK
        if not 0 <= pipe <= 5:
            return INDEX_ERROR
        self._set_dynpd((self.r[DYNPD] & ~(1 << pipe)) | (bool(en) << pipe))
        return OK

    def op_payload_length(self, v):
        if is_int(v):
            for p in range(6):
                self.r[RX_PW_P0 + p] = max(1, min(32, v))
            return OK
        if isinstance(v, (list, tuple)):
            for i, x in enumerate(v):
                if i < 6 and x > 0:
                    self.r[RX_PW_P0 + i] = min(32, x)
            return OK
        return VALUE_ERROR

    def op_set_payload_length(self, length, pipe):
        if pipe is None:
            return self.op_payload_length(length)
        if not 0 <= pipe <= 5:
            return INDEX_ERROR
        self.r[RX_PW_P0 + pipe] = max(1, min(32, length))
        return OK

    def op_ack(self, en):
        if en:
            self.r[EN_AA] |= 1
            self.r[DYNPD] |= 0x3F if self.lite else 1
            self.r[FEATURE] |= 4
        self.r[FEATURE] = (self.r[FEATURE] & 5) | (2 if en else 0)
        return OK

    def op_allow_ask_no_ack(self, en):
        self.r[FEATURE] = (self.r[FEATURE] & 6) | int(bool(en))
        return OK

    def op_interrupt_config(self, dr, ds, df):
        self.r[CONFIG] = (self.r[CONFIG] & 0x0F) | ((not dr) << 6) | ((not ds) << 5) | ((not df) << 4)
        return OK

    def op_power(self, on):
        self.r[CONFIG] = (self.r[CONFIG] & 0x7D) | (2 if on else 0)
        return OK

    def op_open_rx_pipe(self, pipe, addr):
        if not 0 <= pipe <= 5:
            return INDEX_ERROR
        if len(addr) == 0:
            return VALUE_ERROR
        if len(addr) > 5:
            return "oversize-address"
        if pipe < 2:
            self._overlay(RX_ADDR_P0 + pipe, addr)
            if pipe == 0:
                # "the existing address can be altered by writing a bytearray with a length less
                # than 5": the user's pipe-0 address is the full register content in effect now
                self.user_p0 = self.r[RX_ADDR_P0]
        else:
            self.r[RX_ADDR_P0 + pipe] = addr[0]
        self.r[EN_RXADDR] |= 1 << pipe
        return OK

    def op_close_rx_pipe(self, pipe):
        if not 0 <= pipe <= 5:
            return INDEX_ERROR
        self.r[EN_RXADDR] &= ~(1 << pipe)
        if pipe == 0:
            self.user_p0 = None
        return OK

    def op_open_tx_pipe(self, addr):
        if len(addr) > 5:
            return "oversize-address"
        self._overlay(TX_ADDR, addr)
        if self.lite or self.r[EN_AA] & 1:
            # "RX pipe 0 is appropriated with the TX address": the whole address in effect
            self.r[RX_ADDR_P0] = self.r[TX_ADDR]
            if (self.r[CONFIG] & 3) == 2:
                self.r[EN_RXADDR] |= 1  # in TX mode the ACK pipe is open (C08 statement)
        return OK

    def op_listen(self, rx):
        self.r[CONFIG] = (self.r[CONFIG] & 0xFC) | 2 | int(bool(rx))
        if rx:
            self.ce = True
            if self.user_p0 is not None:
                self._overlay(RX_ADDR_P0, self.user_p0)
            else:
                self.r[EN_RXADDR] &= 0x3E
        else:
            self.ce = False
            if self.lite or self.r[EN_AA] & 1:
                self.r[EN_RXADDR] |= 1
        return OK

    def op_load_ack(self, buf, pipe):
        if self.lite:
            # documented reduction: no exceptions, invalid parameters have no effect
            if 0 <= pipe <= 5 and 1 <= len(buf) <= 32 and not self.r[FEATURE] & 2:
                self.op_ack(True)
            return OK
        if not 0 <= pipe <= 5:
            return INDEX_ERROR
        if not 1 <= len(buf) <= 32:
            return VALUE_ERROR
        if not self.ack_effective():
            self.op_ack(True)
        return OK

    def op_start_carrier_wave(self):
        self.op_listen(False)
        self.r[RF_SETUP] |= 0x90
        self.ce = True
        return OK

    def op_stop_carrier_wave(self):
        self.ce = False
        self.op_power(False)
        self.r[RF_SETUP] &= ~0x90 & 0xFF
        return OK

    def op_ctx(self):
        """leave and re-enter the object's `with` block"""
        self.r[CONFIG] |= 2
        self.ce = False
        return OK

    # ------------------------------------------------------------------ getters
    def getters(self):
        r = self.r
        rs = r[RF_SETUP]
        if r[EN_AA] & 0x3F:
            crc = 2 if r[CONFIG] & 4 else 1
        else:
            crc = 0 if not r[CONFIG] & 8 else (2 if r[CONFIG] & 4 else 1)
        g = {
            "channel": r[RF_CH],
            "data_rate": 250 if rs & 0x20 else (2 if rs & 0x08 else 1),
            "pa_level": (3 - ((rs & 6) >> 1)) * -6,
            "is_lna_enabled": bool(rs & 1),
            "crc": crc,
            "address_length": r[SETUP_AW] + 2,
            "ard": (r[SETUP_RETR] >> 4) * 250 + 250,
            "arc": r[SETUP_RETR] & 0x0F,
            "auto_ack": r[EN_AA],
            "dynamic_payloads": r[DYNPD],
            "payload_length": r[RX_PW_P0],
            "ack": self.ack_effective(),
            "allow_ask_no_ack": bool(r[FEATURE] & 1),
            "power": bool(r[CONFIG] & 2),
            "listen": bool(r[CONFIG] & 2) and bool(r[CONFIG] & 1),
        }
        for p in range(6):
            g["get_auto_ack(%d)" % p] = bool(r[EN_AA] & (1 << p))
            g["get_dynamic_payloads(%d)" % p] = bool(r[DYNPD] & (1 << p))
            g["get_payload_length(%d)" % p] = r[RX_PW_P0 + p]
            g["address(%d)" % p] = self.pipe_address(p)
        g["address(-1)"] = r[TX_ADDR]
        g["get_auto_retries"] = (g["ard"], g["arc"])
        return g

    def pipe_address(self, p):
        if p < 2:
            return self.r[RX_ADDR_P0 + p]
        return bytes([self.r[RX_ADDR_P0 + p]]) + self.r[RX_ADDR_P1][1:]
