"""Bootstrap: make the library importable from /repo's working tree and virtualise its clock.

Nothing is cached between runs: no byte-code is written, the library is imported fresh
from the working tree by every process.
"""
import os
import sys

sys.dont_write_bytecode = True
os.environ.setdefault("PYTHONDONTWRITEBYTECODE", "1")

VERIF = os.path.dirname(os.path.dirname(os.path.abspath(__file__)))
REPO = os.environ.get("VERIF_REPO", "/repo")
DEPS = os.path.join(VERIF, ".deps")

if VERIF not in sys.path:
    sys.path.insert(0, VERIF)
if REPO in sys.path:
    sys.path.remove(REPO)
sys.path.insert(0, REPO)
if os.path.isdir(DEPS) and DEPS not in sys.path:
    sys.path.append(DEPS)

_lib = None


class Lib:
    """handles to the library's modules, imported once per process"""


def lib():
    global _lib
    if _lib is not None:
        return _lib
    from vlib.sim.core import VTIME
    import circuitpython_nrf24l01.rf24 as rf24
    import circuitpython_nrf24l01.rf24_lite as rf24_lite
    import circuitpython_nrf24l01.network.mixins as mixins
    import circuitpython_nrf24l01.network.structs as structs
    import circuitpython_nrf24l01.network.constants as constants
    import circuitpython_nrf24l01.rf24_network as rf24_network
    import circuitpython_nrf24l01.rf24_mesh as rf24_mesh
    import circuitpython_nrf24l01.fake_ble as fake_ble

    here = os.path.realpath(rf24.__file__)
    if not here.startswith(os.path.realpath(REPO) + os.sep):
        raise RuntimeError("library imported from %s, not from %s" % (here, REPO))
    for m in (rf24, rf24_lite, mixins, rf24_mesh):
        if hasattr(m, "time"):
            m.time = VTIME
    L = Lib()
    L.rf24, L.rf24_lite, L.mixins, L.structs, L.constants = rf24, rf24_lite, mixins, structs, constants
    L.rf24_network, L.rf24_mesh, L.fake_ble = rf24_network, rf24_mesh, fake_ble
    L.RF24, L.RF24Lite = rf24.RF24, rf24_lite.RF24
    L.RF24Network, L.RF24NetworkRoutingOnly = rf24_network.RF24Network, rf24_network.RF24NetworkRoutingOnly
    L.RF24Mesh, L.RF24MeshNoMaster = rf24_mesh.RF24Mesh, rf24_mesh.RF24MeshNoMaster
    L.FakeBLE = fake_ble.FakeBLE
    L.Header, L.Frame = structs.RF24NetworkHeader, structs.RF24NetworkFrame
    _lib = L
    return L


def reset_frame_ids(start=0):
    """the header frame-id counter is the library's only process-wide state"""
    L = lib()
    setattr(L.Header, "_RF24NetworkHeader__next_id", start & 0xFFFF)
