"""Child process of a 'fuzz' part: one atheris (libFuzzer) campaign.

argv: <check module> <decoder 'module:function'> <work dir> <seconds> <seed> <max_len> <shard>
The raw bytes are decoded into a structured case by the check's data provider; the semantic
oracle (the check's run_case) sits inside the target; violations are collected, not raised,
so the campaign continues past the first one.  Results are pickled every few executions
(libFuzzer exits the process itself, atexit handlers do not run).  -timeout=0 does NOT switch
atheris' per-unit watchdog off (it then fires after one second of wall-clock time and ends the
campaign silently on a loaded machine); a generous value does, and a unit that really hangs is
bounded by the checks' own virtual-time horizon and step budgets."""
import importlib
import os
import pickle
import sys

HERE = os.path.dirname(os.path.dirname(os.path.dirname(os.path.abspath(__file__))))
sys.path.insert(0, HERE)
sys.dont_write_bytecode = True
from vlib import boot  # noqa: E402

try:
    import atheris
except ImportError:
    print("atheris is not installed")
    sys.exit(3)

modname, decoder_spec, work, seconds, seed, max_len, shard = sys.argv[1:8]
with atheris.instrument_imports(include=["circuitpython_nrf24l01"], enable_loader_override=False):
    boot.lib()
from vlib.harness.runner import Collector  # noqa: E402

check = importlib.import_module("vlib.checks." + modname)
dm, df = decoder_spec.split(":")
decode = getattr(importlib.import_module(dm), df)
coll = Collector(check, use_alarm=False)
out = os.path.join(work, "result.pkl")
state = {"n": 0, "sigs": 0}


def dump():
    tmp = out + ".tmp"
    with open(tmp, "wb") as f:
        pickle.dump(coll.export(), f)
    os.replace(tmp, out)


def TestOneInput(data):
    case = decode(bytes(data))
    if case is None:
        return
    coll.run(case)
    state["n"] += 1
    if state["n"] % 25 == 0 or len(coll.sigs) != state["sigs"]:
        state["sigs"] = len(coll.sigs)
        dump()


corpus = os.path.join(work, "corpus")
os.makedirs(corpus, exist_ok=True)
if int(shard) % 2 and hasattr(check, "seed_inputs"):
    for i, b in enumerate(check.seed_inputs()):
        with open(os.path.join(corpus, "seed%03d" % i), "wb") as f:
            f.write(b)
dump()
atheris.Setup([sys.argv[0], "-max_total_time=%s" % seconds, "-seed=%s" % seed, "-max_len=%s" % max_len, "-timeout=600",
               "-artifact_prefix=%s/" % work, "-print_final_stats=0", "-verbosity=0", corpus], TestOneInput)
atheris.Fuzz()
