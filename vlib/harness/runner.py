"""Common runner: replay tier, enumerated parts, Hypothesis-generated parts, sharding over
worker processes, collect-then-continue bucketing by signature, shrinking, known findings,
evidence.  See DESIGN.md section 1.

A check module provides

    PROPERTY, LEVEL, RULE, ASSUMPTIONS
    parts(tier) -> [Part]          what to run
    run_case(case) -> Result       pure function of the JSON case
    SHRINK_LISTS (optional)        names of list-valued keys whose elements may be deleted
    simplify(case) (optional)      generator of simpler candidate cases

Exit status: 0 held, 1 violation (a line `VIOLATION property=<id> replay=<path>` per new
signature), 2 harness error.
"""
import copy
import hashlib
import json
import multiprocessing
import os
import signal
import sys
import time
import traceback

from vlib import boot
from vlib.harness import findings as findings_mod

NPROC = int(os.environ.get("VERIF_NPROC", "16"))
# scratch runs (seeded changes applied to a worktree named by VERIF_REPO) write their evidence and found replays elsewhere
OUT = os.environ.get("VERIF_OUT") or boot.VERIF
CASE_REAL_TIMEOUT = float(os.environ.get("VERIF_CASE_TIMEOUT", "240"))


class Result:
    __slots__ = ("violations", "labels", "nontrivial", "inconclusive", "info", "counts")

    def __init__(self):
        self.violations = []  # (signature, message)
        self.labels = set()
        self.nontrivial = False
        self.inconclusive = None  # reason string: the case could not be judged
        self.info = {}
        self.counts = {}  # named unit counters (e.g. address pairs covered inside one case), summed into the evidence

    def fail(self, sig, msg=""):
        self.violations.append((sig, str(msg)[:600]))

    def label(self, *names):
        self.labels.update(names)


class Part:
    def __init__(self, name, kind, source, n=None, exhaustive=False, weight=1):
        """kind 'enum': source() -> iterable of cases (deterministic order);
        kind 'gen':  source() -> hypothesis strategy of cases, n = number of cases
        kind 'machine': source() -> hypothesis RuleBasedStateMachine class with a case() method, n = number of histories
        kind 'fuzz': source() -> dict(decoder='module:function', seconds=.., max_len=..) for an atheris campaign"""
        self.name, self.kind, self.source, self.n, self.exhaustive = name, kind, source, n, exhaustive
        self.weight = weight


class CaseTimeout(BaseException):
    pass


def _alarm(_sig, _frm):
    raise CaseTimeout()


def case_hash(case):
    return hashlib.sha1(json.dumps(case, sort_keys=True, default=str).encode()).digest()[:10]


def exc_signature(clause, exc):
    """(clause, exception type, innermost library frame)"""
    tb = traceback.extract_tb(exc.__traceback__)
    where = "?"
    for fr in reversed(tb):
        if "circuitpython_nrf24l01" in fr.filename:
            where = "%s:%s" % (os.path.basename(fr.filename), fr.name)
            break
    return "%s/%s@%s" % (clause, type(exc).__name__, where)


class Collector:
    def __init__(self, check, max_samples=4, use_alarm=True):
        self.check = check
        self.use_alarm = use_alarm
        self.evaluations = 0
        self.nontrivial = set()
        self.labels = {}
        self.sigs = {}  # sig -> [count, first case, message]
        self.samples = []
        self.nt_samples = []
        self.inconclusive = {}
        self.max_samples = max_samples
        self.harness_errors = []
        self.counts = {}

    def run(self, case):
        if self.use_alarm:
            signal.signal(signal.SIGALRM, _alarm)
            signal.setitimer(signal.ITIMER_REAL, CASE_REAL_TIMEOUT)
        try:
            res = self.check.run_case(case)
        except CaseTimeout:
            res = Result()
            res.inconclusive = "real-time budget of one case reached"
        except Exception as e:  # noqa: BLE001 - a harness bug, reported as exit 2
            if self.use_alarm:
                signal.setitimer(signal.ITIMER_REAL, 0)
            self.harness_errors.append((case, "".join(traceback.format_exception(type(e), e, e.__traceback__))[-3000:]))
            return None
        finally:
            if self.use_alarm:
                signal.setitimer(signal.ITIMER_REAL, 0)
        self.add(case, res)
        return res

    def add(self, case, res):
        self.evaluations += 1
        for lb in res.labels:
            self.labels[lb] = self.labels.get(lb, 0) + 1
        for k, v in res.counts.items():
            self.counts[k] = self.counts.get(k, 0) + v
        if res.inconclusive:
            self.inconclusive[res.inconclusive] = self.inconclusive.get(res.inconclusive, 0) + 1
        if res.nontrivial:
            h = case_hash(case)
            if h not in self.nontrivial:
                self.nontrivial.add(h)
                if len(self.nt_samples) < self.max_samples:
                    self.nt_samples.append(case)
        if len(self.samples) < 2:
            self.samples.append(case)
        seen = set()
        for sig, msg in res.violations:
            if sig in seen:
                continue
            seen.add(sig)
            ent = self.sigs.get(sig)
            if ent is None:
                self.sigs[sig] = [1, case, msg]
            else:
                ent[0] += 1
                if len(json.dumps(case, default=str)) < len(json.dumps(ent[1], default=str)):
                    ent[1], ent[2] = case, msg

    def export(self):
        return {"evaluations": self.evaluations, "nontrivial": self.nontrivial, "labels": self.labels,
                "sigs": self.sigs, "samples": self.samples, "nt_samples": self.nt_samples,
                "inconclusive": self.inconclusive, "harness_errors": self.harness_errors[:3], "counts": self.counts}


def _load_check(name):
    import importlib
    return importlib.import_module("vlib.checks." + name)


def _worker(args):
    modname, tier, part_idx, shard, nshards, seedval = args
    try:
        check = _load_check(modname)
        boot.lib()
        part = check.parts(tier)[part_idx]
        if part.kind == "fuzz":
            return _fuzz_job(modname, tier, part_idx, part, shard, seedval)
        coll = Collector(check)
        if part.kind == "machine":
            n = part.n // nshards + (1 if shard < part.n % nshards else 0)
            if n > 0:
                _run_machine(part.source(), n, seedval, coll)
        elif part.kind == "enum":
            for i, case in enumerate(part.source()):
                if i % nshards == shard:
                    coll.run(case)
        else:
            n = part.n // nshards + (1 if shard < part.n % nshards else 0)
            if n > 0:
                _run_hypothesis(part.source(), n, seedval, coll)
        out = coll.export()
        out["part"] = part.name
        return out
    except BaseException as e:  # noqa: BLE001
        return {"fatal": "".join(traceback.format_exception(type(e), e, e.__traceback__))[-4000:]}


def _fuzz_job(modname, tier, part_idx, part, shard, seedval):
    """one coverage-guided campaign (atheris/libFuzzer) in a child process; the child collects
    results exactly like the other parts and leaves them in a pickle"""
    import pickle
    import shutil
    import subprocess
    import tempfile
    spec = part.source()
    work = tempfile.mkdtemp(prefix="vfuzz_%s_%d_" % (modname, shard), dir=os.path.join(boot.VERIF, "out") if os.path.isdir(
        os.path.join(boot.VERIF, "out")) else None)
    try:
        out = os.path.join(work, "result.pkl")
        cmd = [sys.executable, os.path.join(boot.VERIF, "vlib", "harness", "fuzz_target.py"), modname, spec["decoder"], work,
               str(spec["seconds"]), str(seedval % (2 ** 31 - 1) + 1), str(spec.get("max_len", 256)), str(shard)]
        env = dict(os.environ, PYTHONHASHSEED="0")
        p = subprocess.run(cmd, stdout=subprocess.PIPE, stderr=subprocess.STDOUT, env=env, timeout=spec["seconds"] * 3 + 300)
        if not os.path.exists(out):
            tail = p.stdout.decode(errors="replace")[-1500:]
            if "atheris is not installed" in tail:
                return {"evaluations": 0, "nontrivial": set(), "labels": {}, "sigs": {}, "samples": [], "nt_samples": [],
                        "inconclusive": {"atheris not available (run setup_cmd)": 1}, "harness_errors": [], "part": part.name}
            return {"fatal": "fuzz child produced no result (rc %s):\n%s" % (p.returncode, tail)}
        with open(out, "rb") as f:
            res = pickle.load(f)
        res["part"] = part.name
        if b"ERROR: libFuzzer" in p.stdout:  # the campaign stopped before its time was up: say so in the evidence
            why = "fuzz campaign ended early (libFuzzer stopped the child)"
            res["inconclusive"][why] = res["inconclusive"].get(why, 0) + 1
        return res
    finally:
        shutil.rmtree(work, ignore_errors=True)


def _run_hypothesis(strategy, n, seedval, coll):
    from hypothesis import given, settings, seed, HealthCheck, Phase

    @seed(seedval)
    @settings(max_examples=n, database=None, deadline=None, derandomize=False, phases=[Phase.generate],
              suppress_health_check=list(HealthCheck), report_multiple_bugs=False)
    @given(strategy)
    def t(case):
        coll.run(case)

    t()


def _run_machine(machine_cls, n, seedval, coll):
    """Hypothesis rule-based state machine as a *generator of histories*: its rules step a reference model (so that
    preconditions and arguments can depend on the state reached) and record the operations; at teardown the recorded
    op list - the JSON case - is executed against the library by the check's run_case and collected like any other case"""
    from hypothesis import settings, seed, HealthCheck, Phase
    from hypothesis.stateful import run_state_machine_as_test

    class Recording(machine_cls):
        def teardown(self):
            case = self.case()
            if case is not None:
                coll.run(case)

    Recording.__name__ = machine_cls.__name__
    run_state_machine_as_test(seed(seedval)(Recording), settings=settings(
        max_examples=n, stateful_step_count=getattr(machine_cls, "STEPS", 30), database=None, deadline=None, derandomize=False,
        phases=[Phase.generate], suppress_health_check=list(HealthCheck), report_multiple_bugs=False))


def _subseed(seed, part_idx, shard):
    h = hashlib.sha1(("%d/%d/%d" % (seed, part_idx, shard)).encode()).digest()
    return int.from_bytes(h[:6], "big")


# ---------------------------------------------------------------------------- shrinking
def _paths_of_lists(obj, names, prefix=()):
    if isinstance(obj, dict):
        for k, v in obj.items():
            if isinstance(v, list) and (names is None or k in names):
                yield prefix + (k,)
            yield from _paths_of_lists(v, names, prefix + (k,))
    elif isinstance(obj, list):
        for i, v in enumerate(obj):
            yield from _paths_of_lists(v, names, prefix + (i,))


def _get(obj, path):
    for p in path:
        obj = obj[p]
    return obj


def shrink(check, case, sig, budget):
    """greedy deletion (ddmin-like) over the lists named in check.SHRINK_LISTS, then the
    check's own simplify() candidates; a candidate is kept iff it still shows `sig`"""
    names = getattr(check, "SHRINK_LISTS", None)
    simplify = getattr(check, "simplify", None)
    used = [0]

    def reproduces(c):
        if used[0] >= budget:
            return False
        used[0] += 1
        try:
            signal.signal(signal.SIGALRM, _alarm)
            signal.setitimer(signal.ITIMER_REAL, CASE_REAL_TIMEOUT)
            r = check.run_case(c)
            return any(s == sig for s, _ in r.violations)
        except BaseException:  # noqa: BLE001 - a candidate outside the executable domain is not a reproduction
            return False
        finally:
            signal.setitimer(signal.ITIMER_REAL, 0)

    best = copy.deepcopy(case)
    progress = True
    while progress and used[0] < budget:
        progress = False
        if names is not None and names != ():
            for path in list(_paths_of_lists(best, set(names))):
                try:
                    lst = _get(best, path)
                except (KeyError, IndexError, TypeError):
                    continue
                chunk = max(1, len(lst) // 2)
                while chunk >= 1 and used[0] < budget:
                    i = 0
                    while i < len(lst) and used[0] < budget:
                        cand = copy.deepcopy(best)
                        cl = _get(cand, path)
                        del cl[i:i + chunk]
                        if reproduces(cand):
                            best = cand
                            lst = _get(best, path)
                            progress = True
                        else:
                            i += chunk
                    chunk //= 2
        if simplify is not None:
            again = True
            while again and used[0] < budget:
                again = False
                try:
                    cands = list(simplify(copy.deepcopy(best)))
                except Exception:  # noqa: BLE001 - a case shape the simplifier does not know: keep what the list shrinker found
                    cands = []
                for cand in cands:
                    if used[0] >= budget:
                        break
                    if cand != best and reproduces(cand):
                        best = cand
                        progress = again = True
                        break
    return best, used[0]


# ---------------------------------------------------------------------------- main entry
def replay_dir(pid):
    return os.path.join(boot.VERIF, "replays", pid)


def save_replay(pid, sig, case, msg):
    d = os.path.join(OUT, "replays", pid)
    os.makedirs(d, exist_ok=True)
    slug = "".join(ch if ch.isalnum() else "_" for ch in sig)[:70]
    h = hashlib.sha1(json.dumps(case, sort_keys=True, default=str).encode()).hexdigest()[:8]
    path = os.path.join(d, "found_%s_%s.json" % (slug, h))
    with open(path, "w") as f:
        json.dump({"property": pid, "signature": sig, "message": msg, "case": case}, f, indent=1, sort_keys=True,
                  default=str)
    return path


def load_replay(path):
    with open(path) as f:
        d = json.load(f)
    if isinstance(d, dict) and "case" in d and "property" in d:
        return d["case"], d.get("signature")
    return d, None


def run_replay(modname, path):
    check = _load_check(modname)
    boot.lib()
    case, sig = load_replay(path)
    res = check.run_case(case)
    known = findings_mod.load()
    new = [(s, m) for s, m in res.violations if not findings_mod.is_known(known, check.PROPERTY, s)]
    for s, m in res.violations:
        print("  %s: %s" % (s, m))
    if new:
        print("VIOLATION property=%s replay=%s" % (check.PROPERTY, path))
        return 1
    print("replay of %s: no violation (labels: %s)" % (path, sorted(res.labels)))
    return 0


def main(modname, tier, seed):
    t0 = time.time()
    check = _load_check(modname)
    pid = check.PROPERTY
    boot.lib()
    known = findings_mod.load()
    parts = check.parts(tier)

    total = {"evaluations": 0, "nontrivial": set(), "labels": {}, "sigs": {}, "samples": [], "nt_samples": [],
             "inconclusive": {}, "parts": {}, "counts": {}}
    harness_errors = []

    def merge(out, partname):
        if "fatal" in out:
            harness_errors.append(out["fatal"])
            return
        total["evaluations"] += out["evaluations"]
        total["nontrivial"] |= out["nontrivial"]
        p = total["parts"].setdefault(partname, {"evaluations": 0, "nontrivial": 0})
        p["evaluations"] += out["evaluations"]
        p["nontrivial"] += len(out["nontrivial"])
        for k, v in out["labels"].items():
            total["labels"][k] = total["labels"].get(k, 0) + v
        for k, v in out["inconclusive"].items():
            total["inconclusive"][k] = total["inconclusive"].get(k, 0) + v
        for k, v in out.get("counts", {}).items():
            total["counts"][k] = total["counts"].get(k, 0) + v
        for sig, (cnt, case, msg) in out["sigs"].items():
            ent = total["sigs"].get(sig)
            if ent is None:
                total["sigs"][sig] = [cnt, case, msg]
            else:
                ent[0] += cnt
                if len(json.dumps(case, default=str)) < len(json.dumps(ent[1], default=str)):
                    ent[1], ent[2] = case, msg
        if len(total["samples"]) < 3:
            total["samples"].extend(out["samples"][:1])
        if len(total["nt_samples"]) < 5:
            total["nt_samples"].extend(out["nt_samples"][:2])
        for case, tb in out["harness_errors"]:
            harness_errors.append("case %s\n%s" % (json.dumps(case, default=str)[:800], tb))

    # 1. replay tier: every saved case of this property is run first
    coll = Collector(check)
    rdir = replay_dir(pid)
    nrep = 0
    if os.path.isdir(rdir):
        for fn in sorted(os.listdir(rdir)):
            if fn.endswith(".json"):
                case, _ = load_replay(os.path.join(rdir, fn))
                coll.run(case)
                nrep += 1
    if nrep:
        merge(coll.export(), "replay")

    # 2. enumerated and generated parts, sharded
    jobs = []
    for pi, part in enumerate(parts):
        nsh = NPROC if (part.kind in ("enum", "fuzz") or (part.n or 0) >= NPROC * 4) else max(1, min(NPROC, (part.n or 1) // 4))
        if part.kind == "machine":
            nsh = NPROC if part.n >= NPROC * 4 else 1
        for sh in range(nsh):
            jobs.append((modname, tier, pi, sh, nsh, _subseed(seed, pi, sh)))
    if jobs:
        ctx = multiprocessing.get_context("fork")
        with ctx.Pool(min(NPROC, len(jobs))) as pool:
            for args, out in zip(jobs, pool.imap(_worker, jobs, chunksize=1)):
                merge(out, parts[args[2]].name)

    if harness_errors:
        # an exception escaped a case outside the places where the check expects one.  Alone it is a harness error (exit 2,
        # never a VIOLATION); if other cases produced violations these are still reported below (exit 1) - on a changed
        # tree an unexpected exception and a violation usually have the same cause
        print("HARNESS ERROR in %s (%d); first:\n%s" % (pid, len(harness_errors), harness_errors[0]))
        if not any(not findings_mod.is_known(known, pid, sig) for sig in total["sigs"]):
            write_evidence(check, tier, seed, total, parts, t0, -1, {}, "harness error")
            return 2

    # 3. verdict: known findings are reported, new signatures are shrunk and saved
    new_sigs, known_hits = {}, {}
    for sig, ent in sorted(total["sigs"].items()):
        kf = findings_mod.is_known(known, pid, sig)
        if kf:
            known_hits[sig] = (ent[0], kf)
        else:
            new_sigs[sig] = ent
    by_finding = {}
    for sig, (cnt, kf) in sorted(known_hits.items()):
        by_finding.setdefault(kf, []).append("%s x%d" % (sig, cnt))
    for kf, sigs in by_finding.items():
        print("KNOWN-FINDING: property=%s %s [%s]" % (pid, kf, "; ".join(sigs)))
    default_budget = getattr(check, "SHRINK_BUDGET", {}).get(tier, 150 if tier == "quick" else 1500)
    budget = int(os.environ.get("VERIF_SHRINK_BUDGET", default_budget))
    rc = 0
    sig_report = {}
    for sig, (cnt, case, msg) in sorted(new_sigs.items()):
        small, used = shrink(check, case, sig, budget)
        path = save_replay(pid, sig, small, msg)
        print("  %s x%d: %s" % (sig, cnt, msg))
        print("VIOLATION property=%s replay=%s" % (pid, path))
        sig_report[sig] = {"count": cnt, "replay": os.path.relpath(path, boot.VERIF), "message": msg,
                           "shrink_runs": used}
        rc = 1
    write_evidence(check, tier, seed, total, parts, t0, len(new_sigs), sig_report,
                   None, {s: c for s, (c, _k) in known_hits.items()})
    nt = len(total["nontrivial"])
    print("%s %s seed=%d: %d cases, %d distinct non-trivial, %d new signature(s), %d known, %.1fs" % (
        pid, tier, seed, total["evaluations"], nt, len(new_sigs), len(known_hits), time.time() - t0))
    if total["inconclusive"]:
        print("  inconclusive (not judged): %s" % total["inconclusive"])
    return rc


def write_evidence(check, tier, seed, total, parts, t0, nviol, sig_report, error=None, known_hits=None):
    pid = check.PROPERTY
    samples = (total["nt_samples"][:4] + total["samples"][:2]) or [{"note": "no case executed"}]
    cov = {
        "evaluations": total["evaluations"],
        "distinct_nontrivial": len(total["nontrivial"]),
        "rule": check.RULE,
        "samples": samples,
        "labels": dict(sorted(total["labels"].items())),
        "parts": total["parts"],
        "signatures": sig_report,
        "excluded_by_known_finding": known_hits or {},
        "inconclusive": total["inconclusive"],
        "unit_counts": total.get("counts", {}),
    }
    ex = [p.name for p in parts if p.exhaustive]
    if ex:
        cov["exhaustive"] = True
        cov["exhaustive_parts"] = ex
    if error:
        cov["error"] = error
    ev = {"property_id": pid, "tier": tier, "seed": seed, "level": check.LEVEL, "coverage": cov,
          "assumptions": list(check.ASSUMPTIONS), "wall_s": round(time.time() - t0, 2), "violations": max(nviol, 0)}
    d = os.path.join(OUT, "evidence")
    os.makedirs(d, exist_ok=True)
    with open(os.path.join(d, pid + ".json"), "w") as f:
        json.dump(ev, f, indent=1, default=str)
