"""known_findings.txt: committed, line oriented, never written at run time.

    open: property=<id> signature=<sig> <what fails>
    fixed: property=<id> <commit> <what failed>

Only `open` lines suppress anything: a violation whose signature equals <sig> (or starts
with it when <sig> ends in '*') is printed as KNOWN-FINDING instead of VIOLATION.  A
`fixed` line is history; if the behaviour returns it is a violation again.
"""
import os

from vlib import boot


def load(path=None):
    path = path or os.path.join(boot.VERIF, "known_findings.txt")
    out = []
    if not os.path.exists(path):
        return out
    with open(path) as f:
        for line in f:
            line = line.strip()
            if not line.startswith("open:"):
                continue
            rest = line[len("open:"):].strip().split(None, 2)
            if len(rest) < 2 or not rest[0].startswith("property=") or not rest[1].startswith("signature="):
                continue
            out.append((rest[0][9:], rest[1][10:], rest[2] if len(rest) > 2 else ""))
    return out


def is_known(known, pid, sig):
    for p, s, text in known:
        if p != pid:
            continue
        if s == sig or (s.endswith("*") and sig.startswith(s[:-1])):
            return text or s
    return None
