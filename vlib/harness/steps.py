"""Deterministic step budget for library code: counts 'line' trace events inside frames whose code lives under the
library's directory and raises StepLimit when a budget is exceeded.  It turns 'this call never returns although no
virtual time passes' (a pure CPU loop, invisible to the simulator's clock) into a reproducible observation that does
not depend on the wall clock."""
import sys


class StepLimit(BaseException):
    pass


class StepBudget:
    def __init__(self, limit, prefix):
        self.limit, self.prefix, self.n = limit, prefix, 0

    def _global(self, frame, event, arg):
        if frame.f_code.co_filename.startswith(self.prefix):
            return self._local
        return None

    def _local(self, frame, event, arg):
        if event == "line":
            self.n += 1
            if self.n > self.limit:
                sys.settrace(None)
                raise StepLimit("more than %d library lines executed" % self.limit)
        return self._local

    def __enter__(self):
        self.n = 0
        sys.settrace(self._global)
        return self

    def __exit__(self, *exc):
        sys.settrace(None)
        return False
