"""C20 - rf24_lite honours the same link-level contract as RF24.

The link-level harnesses of C01, C02, C03, C08 and C10 take the driver class as a parameter;
here they run with the lite driver as transmitter, as receiver and on both ends, against the
lite variant of the reference models (documented reductions: global payload mode, auto-ack
and 2-byte CRC always on, no exceptions from load_ack, ValueError for bad pipe numbers).
load_ack() is enumerated exhaustively over lengths 0..40 x pipes -1..6 x TX FIFO fill 0..3."""
from vlib.harness.runner import Result, Part
from vlib.sim.core import Sim
from vlib.sim.radio import Chip, Medium
from vlib.checks import c01_link, c02_send, c03_config, c08_pipe0, c10_fifo
from vlib.checks.linkutil import mk_radio

PROPERTY = "C20"
LEVEL = "exploration"
RULE = ("union of the C01 / C02 / C03 / C08 / C10 case spaces restricted to the lite API (lite->lite, lite->full, full->lite "
        "for payload delivery and send()/resend() outcomes; lite alone for configuration round trips, pipe-0 restoration and "
        "accessors), each judged by the parent property's oracle, plus every (length 0..40, pipe -1..6, TX FIFO fill 0..3) "
        "for load_ack(); non-trivial as defined by the parent property (load_ack: every case); distinct = SHA-1 of the case JSON")
ASSUMPTIONS = c01_link.ASSUMPTIONS + ["lite write() in static mode with a 0-byte or >32-byte buffer may raise ValueError or "
                                      "pad/truncate (the reduction is not documented either way; not judged)"]
SHRINK_LISTS = ("calls", "ops", "ackpl")
SUBS = {"c01": c01_link, "c02": c02_send, "c03": c03_config, "c08": c08_pipe0, "c10": c10_fifo}


def simplify(case):
    m = SUBS.get(case.get("sub"))
    if m is not None and hasattr(m, "simplify"):
        for c in m.simplify({k: v for k, v in case.items() if k != "sub"}):
            c = dict(c)
            c["sub"] = case["sub"]
            yield c


def run_case(case):
    sub = case["sub"]
    if sub == "load_ack":
        return run_load_ack(case)
    res = SUBS[sub].run_case(case, prefix="C20/" + sub)
    res.label(sub)
    return res


def run_load_ack(case):
    res = Result()
    res.nontrivial = True
    sim = Sim()
    chip = Chip(sim, Medium(sim), "D")
    r = mk_radio("lite", chip)
    r.listen = True
    if case["ack_first"]:
        r.ack = True
    for i in range(case["fill"]):
        chip.xfer(bytes([0xA8, 0x10 + i]))
    r.update()
    before = [(bytes(e.payload), e.ack_pipe) for e in chip.txf]
    buf, pipe = bytes(range(case["n"])), case["pipe"]
    valid = 1 <= len(buf) <= 32 and 0 <= pipe <= 5
    try:
        got = r.load_ack(buf, pipe)
    except Exception as e:  # noqa: BLE001 - documented: the lite load_ack() throws no exceptions
        res.fail("C20/load_ack-raises-%s" % type(e).__name__, "load_ack(%d bytes, %d): %r" % (len(buf), pipe, e))
        return res
    after = [(bytes(e.payload), e.ack_pipe) for e in chip.txf]
    if valid and len(before) < 3:
        if after != before + [(buf, pipe)]:
            res.fail("C20/load_ack-valid-not-loaded", "load_ack(%d bytes, pipe %d) with %d payloads queued left the TX FIFO "
                     "at %d payloads (returned %r)" % (len(buf), pipe, len(before), len(after), got))
        elif got is not True:
            res.fail("C20/load_ack-return", "payload loaded but load_ack() returned %r" % (got,))
    else:
        if after != before:
            res.fail("C20/load_ack-invalid-touches-fifo", "load_ack(%d bytes, pipe %d) changed the TX FIFO" % (len(buf), pipe))
        if valid and got is not False:
            # the status byte was refreshed by update() right before the call, so the driver knows the FIFO is full
            res.fail("C20/load_ack-return/full-fifo", "load_ack(%d bytes, pipe %d) returned %r with a full TX FIFO" % (len(buf), pipe, got))
        if not valid and got is not False:
            res.fail("C20/load_ack-invalid-return", "load_ack(%d bytes, pipe %d) returned %r" % (len(buf), pipe, got))
    if chip.illegal:
        res.fail("C20/load_ack-illegal-spi", chip.illegal[0][1])
    res.label("load_ack")
    return res


def _tag(sub, gen):
    def g():
        for c in gen():
            c = dict(c)
            c["sub"] = sub
            yield c
    return g


def _stag(sub, strat_fn, *a):
    def s():
        return strat_fn(*a).map(lambda c: dict(c, sub=sub))
    return s


def _load_ack_enum():
    for n in range(0, 41):
        for pipe in range(-1, 7):
            for fill in range(0, 4):
                for ack_first in (False, True):
                    yield {"sub": "load_ack", "n": n, "pipe": pipe, "fill": fill, "ack_first": ack_first}


def parts(tier):
    q = tier == "quick"
    k = 1 if q else 25
    ps = [
        Part("load_ack-all", "enum", _load_ack_enum, exhaustive=True),
        Part("c01-lite-lite", "gen", _stag("c01", c01_link.strategy, "lite", "lite"), n=700 * k),
        Part("c01-lite-full", "gen", _stag("c01", c01_link.strategy, "lite", "full"), n=700 * k),
        Part("c01-full-lite", "gen", _stag("c01", c01_link.strategy, "full", "lite"), n=700 * k),
        Part("c01-write-bursts-lite-full", "enum", _tag("c01", c01_link._burst_cases("lite", "full")), exhaustive=True),
        Part("c01-write-bursts-lite-lite", "enum", _tag("c01", c01_link._burst_cases("lite", "lite")), exhaustive=True),
        Part("c02-enum-lite-full", "enum", _tag("c02", c02_send._enum((0, 1) if q else (0, 1, 2), (0, 1), "lite", "full")),
             exhaustive=True),
        Part("c02-hist-lite-lite", "enum", _tag("c02", c02_send._enum_hist(3 if q else 4, "lite", "lite")), exhaustive=True),
        Part("c02-gen-lite-lite", "gen", _stag("c02", c02_send.strategy, "lite", "lite"), n=400 * k),
        Part("c02-gen-lite-full", "gen", _stag("c02", c02_send.strategy, "lite", "full"), n=400 * k),
        Part("c03-lite", "gen", _stag("c03", c03_config.strategy, "lite"), n=1000 * k),
        Part("c08-lite-enum", "enum", _tag("c08", c08_pipe0._enum(4 if q else 5, (3, 5) if q else (3, 4, 5), "lite")),
             exhaustive=True),
        Part("c08-lite-gen", "gen", _stag("c08", c08_pipe0.strategy, "lite"), n=500 * k),
        Part("c10-lite", "gen", _stag("c10", c10_fifo.strategy, "lite"), n=1500 * k),
    ]
    return ps
