"""C16 - the mesh master leases each logical address to at most one node ID.

A mesh master runs on a simulated radio; address requests are real MESH_ADDR_REQUEST frames
put on the air by a raw transmitter the way an unassigned node (direct, origin 0o4444, on
the master's level address without ACK) or a relaying node (origin = relay, through the
master's child pipe) would send them; the master's replies are read from the air log.
Oracle: lease-table invariants from the property statement evaluated after every event on
the public dhcp_dict (injective, one lease per ID, granted address valid / not 0 / not 0o4444 /
direct child of the via node / not leased to another ID, reply carries address + ID and is
addressed toward the requester, released addresses grantable again) and exact reproduction
of the table by save_dhcp()/load_dhcp() in both formats."""
import os
import shutil
import struct
import tempfile

from vlib import boot
from vlib.harness.runner import Result, Part, exc_signature
from vlib.ref import netaddr, frag as rfrag
from vlib.sim.core import Sim, Mcu, MS, US, SimHorizon
from vlib.sim.radio import Chip, Medium
from vlib.sim.selftest import Raw
from vlib.sim.shims import SimSpiDev, SimPin

PROPERTY = "C16"
LEVEL = "exploration"
RULE = ("a case = an optional pre-filled table (incl. full / nearly full parents) + an event list over {request(id, via) with via = "
        "direct or a relay address of level 1..3 (usually a currently leased one), release by MESH_ADDR_RELEASE message, release by "
        "API, save_dhcp+load_dhcp in JSON or binary format into the same or a fresh master}; every event word to the stated length "
        "over a small id/relay set is enumerated, Hypothesis draws ids 1..255 and longer histories; persistence alone: drawn tables "
        "of 0..255 entries.  non-trivial = a request arriving when a slot of its parent is taken, a re-request, a release followed "
        "by a grant, or a save/load with a non-empty table; distinct = SHA-1 of the case JSON")
ASSUMPTIONS = ["a request whose via node has at least one free child slot must be answered (weak liveness implied by 'a released "
               "address becomes available again'); which free slot is handed out is not prescribed",
               "relays of level 4 are outside the quantifier (they cannot have children)"]
SHRINK_LISTS = ("events", "prefill")


class Env:
    def __init__(self, L):
        self.L = L
        self.sim = Sim(horizon_ns=3_600_000 * MS, spi_budget=20_000_000, mcu=Mcu(spi_base=150 * US, clock=20 * US))
        self.med = Medium(self.sim)
        self.chip = Chip(self.sim, self.med, "M")
        self.chip.trace_on = False
        self.master = L.RF24Mesh(SimSpiDev(self.chip), SimPin(), SimPin(self.chip, "ce"), 0)
        self.master.tx_timeout = 3
        self.X = Chip(self.sim, self.med, "X")
        self.x = Raw(self.sim, self.X)
        x = self.x
        x.w(0, 0x0E)
        x.w(1, 0x3F)
        x.w(2, 0x01)
        x.w(3, 3)
        x.w(4, 0x13)
        x.w(5, 76)
        x.w(6, 0x07)
        x.w(0x1D, 0x05)
        x.w(0x1C, 0x3F)
        self.sim.advance(3 * MS)

    def raw_chip(self, name):
        c = Chip(self.sim, self.med, name)
        r = Raw(self.sim, c)
        for reg, val in ((0, 0x0E), (1, 0x3F), (2, 0x01), (3, 3), (4, 0x13), (5, 76), (6, 0x07), (0x1D, 0x05), (0x1C, 0x3F)):
            r.w(reg, val)
        return c, r

    def inject_busy(self, frame, pipe, ack_addr, second_frame, delay_us):
        """deliver `frame`, let a passive radio acknowledge the master's first hop on `ack_addr` (so the master goes on
        to wait for the NETWORK_ACK of its routed reply) and have `second_frame` arrive on the master's pipe 0
        `delay_us` later, i.e. while update() is still blocked in that wait"""
        if not hasattr(self, "Y"):
            self.Y, self.y = self.raw_chip("Y")
            self.Z, self.z = self.raw_chip("Z")
        z = self.z
        z.ce(False)
        z.w(0, 0x0F)
        z.w(2, 0x02)
        z.w(0x0B, *ack_addr)
        z.x(0xE2)
        z.ce(True)
        y = self.y
        self.nid = getattr(self, "nid", 0) + 1
        second_frame = second_frame[:4] + struct.pack("<H", 30000 + self.nid) + second_frame[6:]
        a0 = self.chip.pipe_addr(0)
        y.ce(False)
        y.w(7, 0x70)
        y.x(0xE1)
        y.w(0x0A, *a0)
        y.w(0x10, *a0)
        y.x(0xB0, *second_frame)
        self.sim.advance(2 * MS)
        armed = [True]
        self.sim.after(delay_us * US, lambda: armed[0] and self.Y.set_ce(True))
        sent = self.inject(frame, pipe)
        # the second request either arrived inside this event's window or never: a start still pending is cancelled
        # and the unsent frame flushed, so that it cannot show up during a later event of the history
        armed[0] = False
        self.Y.set_ce(False)
        y.x(0xE1)
        self.z.ce(False)
        for _ in range(3):
            self.master.update()
        return sent

    def inject(self, frame, pipe):
        # every injected frame gets its own frame id: two identical payloads with the same 2-bit PID would be
        # taken for a retransmission by the receiving radio and dropped
        self.nid = getattr(self, "nid", 0) + 1
        if getattr(self, "keep_ids", False) and frame[6] == 195:
            # a real requester keeps its header between attempts: every request of one ID carries the same frame id (the
            # injecting radio's packet id advances with every payload, so consecutive packets are never taken for repeats)
            frame = frame[:4] + struct.pack("<H", 40000 + frame[7]) + frame[6:]
        else:
            frame = frame[:4] + struct.pack("<H", self.nid) + frame[6:]
        a = self.chip.pipe_addr(pipe)
        x = self.x
        x.ce(False)
        x.w(7, 0x70)
        x.x(0xE1)
        x.w(0x0A, *a)
        x.w(0x10, *a)
        if pipe != 0:
            # the injecting radio's 2-bit packet id comes round after four payloads; a frame identical to the last one this
            # radio sent to an acknowledging pipe, with the same packet id, would be dropped by the receiving radio as a
            # re-transmission (a hazard of this injector, not of the master): one dummy load moves the packet id on
            if getattr(self, "last_ack_inj", None) == (self.X.pid & 3, bytes(frame)):
                x.x(0xA0, 0)
                x.x(0xE1)
            self.last_ack_inj = (self.X.pid & 3, bytes(frame))
        x.x(0xB0 if pipe == 0 else 0xA0, *frame)
        x.ce(True)
        self.sim.advance(3 * MS)
        x.ce(False)
        n0 = len(self.med.log)
        guard = 0
        while guard < 6:
            guard += 1
            self.master.update()
            if not self.chip.rxf:
                break
        self.master.update()
        return [e for e in self.med.log[n0:] if e["src"] == "M" and not e["ack"]]


def table_ok(res, table, when):
    vals = list(table.values())
    if len(set(vals)) != len(vals):
        dup = [a for a in set(vals) if vals.count(a) > 1][0]
        ids = sorted(i for i, a in table.items() if a == dup)
        res.fail("C16/address-leased-to-two-ids/" + when, "address 0o%o is leased to IDs %s" % (dup, ids))
        return False
    for i, a in table.items():
        if not netaddr.is_node_address(a) or a in (0, 0o4444):
            res.fail("C16/illegal-address-in-table/" + when, "ID %r holds 0o%o" % (i, a))
            return False
    return True


def run_case(case):
    L = boot.lib()
    res = Result()
    tmp = tempfile.mkdtemp(prefix="c16_", dir=os.path.join(boot.VERIF, "out") if os.path.isdir(os.path.join(boot.VERIF, "out")) else None)
    try:
        env = Env(L)
        env.keep_ids = bool(case.get("keep_ids"))
        m = env.master
        for i, a in case.get("prefill", []):
            m.set_address(i, a)
        last_release = None
        for ev in case["events"]:
            kind = ev[0]
            before = dict(m.dhcp_dict)
            if kind == "req":
                rid, via = ev[1], ev[2]
                if via is None:
                    frame = rfrag.pack_header(0o4444, 0, 1, 195, rid)
                    sent = env.inject(frame, 0)
                    via_addr, reply_to = 0, 0o4444
                else:
                    if via == "leased":
                        cands = sorted(a for a in before.values() if 1 <= netaddr.level(a) <= 3)
                        if not cands:
                            continue
                        via_addr = cands[ev[3] % len(cands)]
                    else:
                        via_addr = via
                    frame = rfrag.pack_header(via_addr, 0, 1, 195, rid)
                    sent = env.inject(frame, netaddr.digits(via_addr)[0])
                    reply_to = via_addr
                after = dict(m.dhcp_dict)
                lv = netaddr.level(via_addr)
                slots = [via_addr | (i << (3 * lv)) for i in range(1, 6)]
                lib_slots = slots[:5 if via is None else 4]
                taken_by_others = {a for i, a in before.items() if i != rid}
                free = [s for s in lib_slots if s not in taken_by_others and s != 0o4444]
                replies = [e for e in sent if len(e["pl"]) >= 10 and rfrag.unpack_header(e["pl"])[3] == 128]
                if any(s in taken_by_others for s in slots) or rid in before or (last_release is not None and last_release in slots):
                    res.nontrivial = True
                if not replies:
                    if free:
                        res.fail("C16/request-not-served", "ID %d via 0o%o: no reply although 0o%o is free" % (rid, via_addr, free[0]))
                    if after != before:
                        res.fail("C16/table-changed-without-reply", "ID %d via 0o%o" % (rid, via_addr))
                else:
                    h = rfrag.unpack_header(replies[0]["pl"])
                    addr = struct.unpack("<H", replies[0]["pl"][8:10])[0]
                    where = "direct" if via is None else "relayed-level%d" % lv
                    if h[4] != rid:
                        res.fail("C16/reply-wrong-id", "reply carries ID %d, request was for %d" % (h[4], rid))
                    # a reply that was not acknowledged at radio level is written again: every copy on air says the same
                    for e in replies[1:]:
                        h2 = rfrag.unpack_header(e["pl"])
                        if (h2[0], h2[1], h2[4], e["pl"][8:10]) != (h[0], h[1], h[4], replies[0]["pl"][8:10]):
                            res.fail("C16/repeated-reply-differs", "ID %d via 0o%o: first reply (from, to, ID, address) = (%o, %o, %d, %s), a later "
                                     "copy (%o, %o, %d, %s)" % (rid, via_addr, h[0], h[1], h[4], replies[0]["pl"][8:10].hex(), h2[0], h2[1], h2[4],
                                                                e["pl"][8:10].hex()))
                            break
                    if len({e["pl"] for e in replies}) > 1 or len(replies) > 1:
                        res.label("reply-repeated-on-air")
                    if h[1] != reply_to:
                        res.fail("C16/reply-misaddressed/" + where, "reply addressed to 0o%o, requester side is 0o%o" % (h[1], reply_to))
                    if not netaddr.is_node_address(addr) or addr in (0, 0o4444):
                        res.fail("C16/illegal-address-granted/" + where, "ID %d via 0o%o was given 0o%o" % (rid, via_addr, addr))
                    elif netaddr.parent(addr) != via_addr:
                        res.fail("C16/granted-address-not-child-of-via/" + where, "ID %d via 0o%o was given 0o%o" % (rid, via_addr, addr))
                    if addr in taken_by_others:
                        other = [i for i, a in before.items() if a == addr and i != rid][0]
                        res.fail("C16/granted-address-already-leased", "0o%o given to ID %d while leased to ID %d" % (addr, rid, other))
                    if after.get(rid) != addr:
                        res.fail("C16/table-disagrees-with-reply", "reply says 0o%o, table holds %r for ID %d" % (addr, after.get(rid), rid))
                    if {i: a for i, a in after.items() if i != rid} != {i: a for i, a in before.items() if i != rid}:
                        res.fail("C16/request-disturbs-other-leases", "ID %d via 0o%o changed another ID's lease" % (rid, via_addr))
                    if via is None and replies[0]["addr"] != netaddr.level_address(4):
                        res.fail("C16/direct-reply-wrong-radio-address", "sent to %s" % replies[0]["addr"].hex())
                    if last_release is not None and addr == last_release:
                        res.label("released-address-granted-again")
                if not table_ok(res, after, "after-request"):
                    break
            elif kind == "req_busy":
                # a request relayed by a node two or more hops away; while the master waits for the NETWORK_ACK of its
                # routed reply a direct request of another ID arrives
                rid, via_addr, rid2 = ev[1], ev[2], ev[3]
                if rid2 == rid or rid2 in before or netaddr.level(via_addr) < 2:
                    continue
                a1 = via_addr & 7
                sent = env.inject_busy(rfrag.pack_header(via_addr, 0, 1, 195, rid), a1, netaddr.pipe_address(a1, 5),
                                       rfrag.pack_header(0o4444, 0, 1, 195, rid2), ev[4])
                after = dict(m.dhcp_dict)
                res.nontrivial = True
                res.label("request-during-network-ack-wait")
                replies = [e for e in sent if len(e["pl"]) >= 10 and rfrag.unpack_header(e["pl"])[3] == 128
                           and rfrag.unpack_header(e["pl"])[1] == via_addr]
                if replies:
                    addr = struct.unpack("<H", replies[0]["pl"][8:10])[0]
                    if after.get(rid) != addr:
                        holder = [i for i, a in after.items() if a == addr]
                        res.fail("C16/table-disagrees-with-reply", "ID %d (via 0o%o) was answered with 0o%o but the table files that address under %s" % (
                            rid, via_addr, addr, holder or "nobody"))
                    if netaddr.parent(addr) != via_addr:
                        res.fail("C16/granted-address-not-child-of-via/relayed-level%d" % netaddr.level(via_addr), "ID %d via 0o%o was given 0o%o" % (rid, via_addr, addr))
                foreign = set(after) - set(before) - {rid, rid2}
                if foreign:
                    res.fail("C16/lease-for-an-id-that-never-asked", "IDs %s appeared in the table" % sorted(foreign))
                if not table_ok(res, after, "after-request"):
                    break
            elif kind in ("rel_msg", "rel_api"):
                if not before:
                    continue
                leased = sorted(before.items())
                rid, addr = leased[ev[1] % len(leased)]
                if len(ev) > 2:  # a given address instead of the k-th lease
                    hit = [(i, a) for i, a in leased if a == ev[2]]
                    if not hit:
                        continue
                    rid, addr = hit[0]
                if kind == "rel_msg":
                    env.inject(rfrag.pack_header(addr, 0, 2, 197, 0), netaddr.digits(addr)[0])
                else:
                    ok = m.release_address(addr)
                    if ok is not True:
                        res.fail("C16/release-api-result", "release_address(0o%o) returned %r" % (addr, ok))
                after = dict(m.dhcp_dict)
                exp = {i: a for i, a in before.items() if a != addr}
                if after != exp:
                    res.fail("C16/release-%s" % ("message" if kind == "rel_msg" else "api"), "after releasing 0o%o (ID %d) the table is %r, expected %r" % (
                        addr, rid, after, exp))
                    break
                last_release = addr
            elif kind == "save_load":
                fmt, target = ev[1], ev[2]
                fn = os.path.join(tmp, "t.%s" % fmt)
                m.save_dhcp(fn, as_bin=(fmt == "bin"))
                if before:
                    res.nontrivial = True
                if target == "fresh":
                    env2 = Env(L)
                    env2.master.load_dhcp(fn, as_bin=(fmt == "bin"))
                    got = dict(env2.master.dhcp_dict)
                    if got != before or any(not isinstance(k, int) for k in got):
                        res.fail("C16/save-load-roundtrip/" + fmt, "saved %d entries, a fresh master loaded %r" % (len(before), sorted(got.items())[:6]))
                else:
                    # the live table changes (a lease is released and its address given to a new ID), then the
                    # earlier file is loaded back into it
                    if m.dhcp_dict and ev[4] not in m.dhcp_dict:
                        leased = sorted(m.dhcp_dict.items())
                        _old_id, addr_x = leased[ev[3] % len(leased)]
                        m.release_address(addr_x)
                        m.set_address(ev[4], addr_x)
                    m.load_dhcp(fn, as_bin=(fmt == "bin"))
                    after = dict(m.dhcp_dict)
                    if not table_ok(res, after, "after-load-" + fmt):
                        break
                    for i, a in before.items():
                        if after.get(i) != a:
                            res.fail("C16/load-does-not-restore-entry/" + fmt, "ID %d was saved with 0o%o, after load it holds %r" % (i, a, after.get(i)))
                            break
            else:
                raise ValueError(kind)
            if not table_ok(res, dict(m.dhcp_dict), "after-" + kind):
                break
    except SimHorizon:
        res.fail("C16/does-not-terminate", "virtual time horizon")
    except Exception as e:  # noqa: BLE001
        res.fail(exc_signature("C16/raises", e), repr(e))
    finally:
        shutil.rmtree(tmp, ignore_errors=True)
    return res


# ---------------------------------------------------------------------------- case sources
def full_parent(p, ids_from=100, leave=0):
    lv = netaddr.level(p)
    n = 5 if p == 0 else 4
    return [[ids_from + i, p | (i << (3 * lv))] for i in range(1, n + 1 - leave) if p | (i << (3 * lv)) != 0o4444]


def _enum(depth):
    import itertools
    alpha = [["req", 1, None], ["req", 2, None], ["req", 3, None], ["req", 1, "leased", 0], ["req", 2, "leased", 0], ["req", 4, "leased", 1],
             ["rel_msg", 0], ["rel_api", 1], ["save_load", "json", "fresh"], ["save_load", "bin", "fresh"],
             ["save_load", "json", "same", 0, 9], ["save_load", "bin", "same", 0, 9]]

    def gen():
        for pre in ([], full_parent(0, leave=1), full_parent(0), full_parent(0o1, leave=1) + [[50, 0o1]], [[50, 0o444], [51, 0o44], [52, 0o4]]):
            for d in range(1, depth + 1):
                for word in itertools.product(alpha, repeat=d):
                    yield {"prefill": pre, "events": [list(e) for e in word]}
    return gen


def _relay_sweep():
    """a request through every possible relay address of level 1..3, with its parent empty, nearly full and full"""
    for via in [a for a in netaddr.all_nodes() if 1 <= netaddr.level(a) <= 3]:
        for leave in (4, 1, 0):
            yield {"prefill": [[7, via]] + full_parent(via, leave=leave), "events": [["req", 200, via], ["req", 200, via], ["req", 201, via]]}


def _refuse_release_sweep():
    """every relay address of level 1..3 (and the master) with all its child slots leased: a new ID is refused, one child
    (each in turn) releases by message or through the API, another new ID asks through the same relay and must be served"""
    for via in [0] + [a for a in netaddr.all_nodes() if 1 <= netaddr.level(a) <= 3]:
        kids = full_parent(via)
        for _i, child in kids:
            for how in ("rel_msg", "rel_api"):
                yield {"prefill": ([[7, via]] if via else []) + kids,
                       "events": [["req", 200, via or None], [how, 0, child], ["req", 201, via or None], ["req", 200, via or None]]}
            # the refused ID itself tries again after the release (its request is the same frame as before: a requester
            # keeps its header, frame id included, between attempts)
            yield {"prefill": ([[7, via]] if via else []) + kids,
                   "events": [["req", 200, via or None], ["rel_msg", 0, child], ["req", 200, via or None], ["req", 200, via or None]], "keep_ids": True}


def _busy_sweep():
    """the second request arrives 1..70 ms after the relayed one was delivered (the master waits up to route_timeout)"""
    for via in (0o11, 0o32, 0o123, 0o445):
        for delay in range(1000, 70001, 3000):
            yield {"prefill": [[7, via]], "events": [["req_busy", 20, via, 21, delay], ["req", 22, None]]}


def _strategy():
    from hypothesis import strategies as st
    rid = st.one_of(st.integers(1, 255), st.sampled_from([1, 2, 3, 254, 255]))
    valid = [a for a in netaddr.all_nodes() if 1 <= netaddr.level(a) <= 3]
    ev = st.one_of(
        st.tuples(st.just("req"), rid, st.none()), st.tuples(st.just("req"), rid, st.none()),
        st.tuples(st.just("req"), rid, st.just("leased"), st.integers(0, 30)),
        st.tuples(st.just("req"), rid, st.just("leased"), st.integers(0, 30)),
        st.tuples(st.just("req"), rid, st.sampled_from(valid)),
        st.tuples(st.just("rel_msg"), st.integers(0, 30)), st.tuples(st.just("rel_api"), st.integers(0, 30)),
        st.tuples(st.just("req_busy"), rid, st.sampled_from([a for a in valid if netaddr.level(a) >= 2]), rid, st.integers(500, 80000)),
        st.tuples(st.just("save_load"), st.sampled_from(["json", "bin"]), st.just("fresh")),
        st.tuples(st.just("save_load"), st.sampled_from(["json", "bin"]), st.just("same"), st.integers(0, 30), rid),
    ).map(list)
    pre = st.one_of(st.just([]), st.sampled_from([0, 0o1, 0o2, 0o13, 0o444]).flatmap(
        lambda p: st.integers(0, 2).map(lambda lv: ([[60, p]] if p else []) + full_parent(p, leave=lv))))
    return st.fixed_dictionaries({"prefill": pre, "events": st.lists(ev, min_size=1, max_size=14), "keep_ids": st.booleans()})


def _persist_strategy():
    from hypothesis import strategies as st
    valid = [a for a in netaddr.all_nodes() if a and a != 0o4444]
    return st.lists(st.integers(0, 255), max_size=255, unique=True).flatmap(
        lambda ids: st.lists(st.sampled_from(valid), min_size=len(ids), max_size=len(ids), unique=True).map(
            lambda addrs: {"prefill": [[i, a] for i, a in zip(ids, addrs)],
                           "events": [["save_load", "json", "fresh"], ["save_load", "bin", "fresh"]]}))


def parts(tier):
    if tier == "quick":
        return [Part("enum-events-depth3", "enum", _enum(3), exhaustive=True), Part("relay-sweep", "enum", _relay_sweep, exhaustive=True),
                Part("refused-then-released-sweep", "enum", _refuse_release_sweep, exhaustive=True), Part("request-during-wait-sweep", "enum", _busy_sweep, exhaustive=True), Part("generated", "gen", _strategy, n=1000), Part("persistence", "gen", _persist_strategy, n=150)]
    return [Part("enum-events-depth4", "enum", _enum(4), exhaustive=True), Part("relay-sweep", "enum", _relay_sweep, exhaustive=True),
            Part("refused-then-released-sweep", "enum", _refuse_release_sweep, exhaustive=True), Part("request-during-wait-sweep", "enum", _busy_sweep, exhaustive=True), Part("generated", "gen", _strategy, n=50000), Part("persistence", "gen", _persist_strategy, n=5000)]
