"""C02 - send()/resend() report the true fate of the payload and always terminate.

Oracle: the medium's ground-truth log (which attempt was acknowledged at the transmitter
chip, what payload every on-air packet carried), never the driver's view of STATUS.
The same module serves C20 with drv='lite'."""
import itertools

from vlib.harness.runner import Result, Part, exc_signature
from vlib.ref import esb
from vlib.sim.core import SimHorizon, US, MS
from vlib.checks.linkutil import Link, WordFault, tx_entries, ack_for, unhex, with_plus

PROPERTY = "C02"
LEVEL = "fault_enumeration"
RULE = ("a case = link configuration (arc, ard code, rate, mode auto-ack / auto-ack off / ACK payloads, peer listening or "
        "not) + per-attempt outcome word over {D deliver, P packet lost, A ACK lost} + a history of send(buf) / send([..]) / "
        "resend() calls with ask_no_ack, force_retry, send_only; enumerated part: every word of length (1+arc)(1+force_retry) "
        "for the stated small arc/force_retry, x mode x send_only x follow-up call; generated part: arc 0..15, all 16 ard "
        "codes, force_retry 0..3, words to 64 symbols, histories to 6 calls.  non-trivial = at least one consumed loss symbol "
        "on a call that needed an ACK, or a failed call followed by another call; distinct = SHA-1 of the case JSON")
ASSUMPTIONS = ["chip model DESIGN 2.2: PID assigned per SPI payload load; ACK must be completely received inside ARD",
               "at most 3 ACK payloads per case so the transmitter's RX FIFO never overflows (chip behaviour there unknown)",
               "a resend() right after a successful call is judged only for foreign payloads and result/ground-truth "
               "agreement (documentation and code disagree on whether the payload is kept)"]
SHRINK_LISTS = ("calls", "ackpl")
ADDR = b"1Node"
PREFIX = "C02"


def simplify(case):
    if case.get("word"):
        for i in range(len(case["word"])):
            if case["word"][i] != "D":
                c = dict(case)
                c["word"] = case["word"][:i] + "D" + case["word"][i + 1:]
                yield c
        c = dict(case)
        c["word"] = case["word"][:-1]
        yield c
    if case.get("arc", 0) > 0:
        c = dict(case)
        c["arc"] = case["arc"] - 1
        yield c
    for i, call in enumerate(case["calls"]):
        if call[0] == "send" and call[3] > 0:
            c = dict(case)
            c["calls"] = [list(x) for x in case["calls"]]
            c["calls"][i][3] -= 1
            yield c


def _same(result, exp):
    if isinstance(exp, (bytes, bytearray)):
        return isinstance(result, (bytes, bytearray)) and bytes(result) == bytes(exp)
    return result is exp


def run_case(case, prefix=None):
    P = prefix or PREFIX
    res = Result()
    drv, peer = case.get("drv", "full"), case.get("peer", "full")
    lk = Link(drv, peer, mcu=case.get("mcu"), plus=case.get("plus", True), warm=case.get("warm"), shared_spi=bool(case.get("shared_spi")))
    res.label("plus-chips" if case.get("plus", True) else "nonplus-chips", "cold-chips" if case.get("warm") is None else "warm-chips", "shared-spidev" if case.get("shared_spi") else "own-spidev")
    sim, med, T, R, ptx, prx = lk.sim, lk.med, lk.T, lk.R, lk.tx, lk.rx
    mode, arc, ardc, rate = case["mode"], case["arc"], case["ard"], case["rate"]
    # configuration pre-history on both ends: calls that re-assert documented defaults or toggle a feature and put it
    # back (ack on/off, data rate 250 kbps and back ...); the link that follows is configured as without them
    for op in case.get("pre", ()):
        for r, kind in ((ptx, drv), (prx, peer)):
            if kind == "lite" and op[0] in ("allow_ask_no_ack", "auto_ack", "crc"):
                continue
            setattr(r, op[0], op[1])
    if case.get("pre"):
        res.label("config-pre-history")
    for r in (ptx, prx):
        r.data_rate = rate
    ptx.arc = arc
    ptx.ard = 250 * (ardc + 1)
    if mode == "aa_off":
        ptx.auto_ack = False
        prx.auto_ack = False
    elif mode == "ackpl":
        ptx.ack = True
        prx.ack = True
    txa = case.get("txaddr")
    peer_addr = ADDR
    if txa:
        # the transmitter's pipe 0 held a reading address and went through RX mode before a SHORT TX address is opened:
        # only the leading bytes of TX_ADDR change; the peer listens on what the radio actually transmits to
        ptx.open_rx_pipe(0, unhex(txa["p0"]))
        ptx.listen = True
        sim.advance(300 * US)
        ptx.listen = False
        ptx.open_tx_pipe(unhex(txa["short"]))
        peer_addr = bytes(T.areg[0x10][:5])
        res.label("short-tx-address-after-pipe0-history")
    prx.open_rx_pipe(1, peer_addr)
    prx.listen = bool(case["listening"])
    if mode == "ackpl":
        for h in case.get("ackpl", [])[:3]:
            R.xfer(bytes([0xA9]) + unhex(h))
    ptx.listen = False
    if not txa:
        ptx.open_tx_pipe(ADDR)
    fault = WordFault(case.get("word", ""), case.get("default", "D"))
    med.fault = fault
    sim.advance(500 * US)
    aw, crc = 5, 2
    last_failed = None  # payload of the last call if it ended unacknowledged
    prev_failed = False
    for ci, call in enumerate(case["calls"]):
        n0, t0 = len(med.log), sim.now
        kind = call[0]
        used0 = len(fault.used)
        if kind in ("read", "listen_cycle", "ctx", "clear"):
            # what an application does between two transmissions: take a received (ACK) payload out of the RX FIFO, or
            # listen for a while and come back.  Not judged themselves (C10 / C08 do that); the calls that follow are.
            try:
                if kind == "read":
                    if ptx.available():
                        ptx.read()
                elif kind == "clear":
                    # an interrupt-driven application releases the IRQ line after a result: the latched flags go, a
                    # failed payload stays at the head of the TX FIFO (resend() must still find and retransmit it).  send()
                    # leaves CE high, and clearing MAX_RT with CE high would restart the transmission by itself (chip
                    # behaviour), so such an application pulls CE low first - as the documentation's IRQ example does
                    ptx.ce_pin = False
                    ptx.clear_status_flags()
                    ptx.update()
                elif kind == "ctx" and drv == "lite":
                    pass  # rf24_lite has no context manager (documented reduction)
                elif kind == "ctx":
                    ptx.__exit__(None, None, None)  # the object's with-block ends and is entered again (a pending failed
                    sim.advance(300 * US)           # payload survives in the radio's TX FIFO)
                    ptx.__enter__()
                    sim.advance(2 * MS)
                else:
                    ptx.listen = True
                    sim.advance(300 * US)
                    if len(call) > 1 and call[1] == "load" and mode == "ackpl":
                        ptx.load_ack(b"\xee\xee", 1)  # an ACK payload nobody came to collect: not data for the next send()
                        res.label("uncollected-ack-payload-before-send")
                    ptx.listen = False
                    if txa:
                        ptx.open_tx_pipe(unhex(txa["short"]))  # documented: re-open the TX pipe after pipe 0 was used for reading
            except Exception as e:  # noqa: BLE001
                res.fail(exc_signature(P + "/raises", e), "%s: %r" % (kind, e))
                break
            if not T.txf:
                last_failed = None  # leaving RX mode with ACK payloads enabled flushes the TX FIFO (documented)
            res.label("between-calls-" + kind)
            sim.advance(200 * US)
            continue
        if kind == "resend":
            items = None
            fr = 0
            send_only = bool(call[1])
            head = bytes(T.txf[0].payload) if T.txf else None
            maxlen = len(head) if head else 32
            nitems = 1
            needs_ack_call = mode in ("aa", "ackpl")
        else:
            bufs = [unhex(call[1])] if kind == "send" else [unhex(h) for h in call[1]]
            ana, fr, send_only = bool(call[2]), int(call[3]), bool(call[4])
            items = bufs
            maxlen = max(len(b) for b in bufs)
            nitems = len(bufs)
            needs_ack_call = mode in ("aa", "ackpl") and not ana
        bound = nitems * esb.send_bound_ns(rate, aw, crc, maxlen, arc, ardc, fr, needs_ack_call)
        # allowance for the MCU: a send()/resend() cycle costs about a dozen SPI transactions besides the polling
        mcu = case.get("mcu") or {}
        spi_ns = (mcu.get("spi", 20) + 33) * 1000 * (1 + mcu.get("jit", 0) / 100.0)
        bound = int(bound * 1.05) + nitems * (1 + fr) * int(16 * spi_ns + 1 * MS)
        sim.horizon = sim.now + 20 * bound + 50 * MS
        try:
            if kind == "resend":
                result = ptx.resend(send_only=send_only) if send_only else ptx.resend()
            elif kind == "send":
                result = ptx.send(bufs[0], ask_no_ack=ana, force_retry=fr, send_only=send_only)
            else:
                result = ptx.send(list(bufs) if call[5] else tuple(bufs), ask_no_ack=ana, force_retry=fr,
                                  send_only=send_only)
        except SimHorizon:
            res.fail(P + "/does-not-terminate", "%s call %d still running after 20x its bound" % (kind, ci))
            break
        except Exception as e:  # noqa: BLE001 - valid arguments: no exception is documented
            res.fail(exc_signature(P + "/raises", e), "%s call %d: %r" % (kind, ci, e))
            break
        dur = sim.now - t0
        if dur > bound:
            res.fail(P + "/exceeds-time-bound", "%s call %d took %.2f ms, bound %.2f ms" % (kind, ci, dur / 1e6, bound / 1e6))
        entries = tx_entries(med, n0)
        # "acknowledged by the peer": an attempt whose ACK the peer put on air and the medium did not lose, but which this
        # radio did not take because the driver left it unable to hear ACKs (pipe 0 closed, or not on the TX address)
        if needs_ack_call:
            for e in entries:
                if e["fate"] == "D" and not e["acked"] and any(a["ack"] and a.get("ack_of") == e["n"] for a in med.log[n0:]):
                    deaf = "pipe 0 is closed" if not T.reg[2] & 1 else (
                        "pipe 0 is on %s, TX address %s" % (T.pipe_addr(0).hex(), bytes(T.areg[0x10][:T.aw()]).hex())
                        if T.pipe_addr(0) != bytes(T.areg[0x10][:T.aw()]) else None)
                    if deaf:
                        res.fail(P + "/peer-acknowledged-but-not-heard", "%s call %d: the peer acknowledged, the radio could not hear it: %s" % (kind, ci, deaf))
                        break
        if prev_failed:
            res.nontrivial = True
        if needs_ack_call and any(s != "D" for s in fault.used[used0:]):
            res.nontrivial = True
        call_failed = False
        if kind == "resend":
            res.label("resend")
            if head is None:
                if entries:
                    res.fail(P + "/resend-empty-fifo-transmits", "resend() with an empty TX FIFO put %d packets on air" % len(entries))
                if result is not False:
                    res.fail(P + "/resend-empty-fifo-result", "resend() with an empty TX FIFO returned %r" % (result,))
            else:
                bad = [e for e in entries if e["pl"] != head]
                if bad:
                    res.fail(P + "/resend-foreign-payload", "resend() transmitted %r, pending payload was %r" % (bad[0]["pl"], head))
                if last_failed is not None and head != last_failed:
                    res.fail(P + "/resend-not-the-failed-payload", "TX FIFO head %r, failed payload %r" % (head, last_failed))
                if not entries:
                    res.fail(P + "/resend-nothing-transmitted", "resend() with a pending payload put nothing on air; returned %r" % (result,))
                else:
                    exp, acked = _expected(med, entries, needs_ack_call, mode, send_only)
                    if not _same(result, exp):
                        res.fail(P + "/resend-result-differs", "resend() returned %r, ground truth %r (attempts %s)" % (
                            result, exp, "".join(fault.used[used0:])))
                    if result is False and not acked and len(entries) != 1 + arc:
                        res.fail(P + "/resend-false-before-all-retries", "False after %d of %d attempts" % (len(entries), 1 + arc))
                    call_failed = needs_ack_call and not acked
                    last_failed = head if call_failed else None
        else:
            res.label("send" if kind == "send" else "send-list")
            groups = []
            for e in entries:
                if groups and groups[-1][0]["pid"] == e["pid"] and groups[-1][0]["pl"] == e["pl"]:
                    groups[-1].append(e)
                else:
                    groups.append([e])
            results = [result] if kind == "send" else result
            if kind != "send" and (not isinstance(result, list) or len(result) != len(items)):
                res.fail(P + "/list-result-shape", "send(list of %d) returned %r" % (len(items), result))
                break
            foreign = [e for e in entries if e["pl"] not in items]
            if foreign:
                res.fail(P + "/foreign-payload-on-air", "call %d transmitted %r which is not its own payload %r" % (
                    ci, foreign[0]["pl"], items[0] if len(items) == 1 else items))
            if len(groups) != len(items) or any(g[0]["pl"] != b for g, b in zip(groups, items)):
                res.fail(P + "/payload-not-transmitted", "call %d: on-air payload runs %r, expected %r" % (
                    ci, [g[0]["pl"] for g in groups], items))
            else:
                for b, g, r_i in zip(items, groups, results):
                    exp, acked = _expected(med, g, needs_ack_call, mode, send_only)
                    if not _same(r_i, exp):
                        res.fail(P + "/send-result-differs", "send(%r) returned %r, ground truth %r (attempts %s)" % (
                            b, r_i, exp, "".join(fault.used[used0:])))
                    if needs_ack_call and not acked:
                        if r_i is False and len(g) != (1 + arc) * (1 + fr):
                            res.fail(P + "/send-false-before-all-retries", "False after %d of %d attempts" % (
                                len(g), (1 + arc) * (1 + fr)))
                        call_failed = True
                        last_failed = b
                    else:
                        call_failed = False
                        last_failed = None
                        if any(bytes(e.payload) == b and e.ack_pipe is None for e in T.txf):
                            res.fail(P + "/sent-payload-left-in-fifo", "payload still in TX FIFO after success")
        prev_failed = call_failed
        if call_failed:
            res.label("failed-call")
        # application gap; the peer's application drains its FIFO (ground truth pop)
        sim.advance(200 * US)
        R.rxf.clear()
        if R.flags & 0x40:
            R.flags &= ~0x40
    if T.illegal:
        res.fail(P + "/illegal-spi", str(T.illegal[0]))
    res.label(mode, "listening" if case["listening"] else "deaf")
    return res


def _expected(med, group, needs_ack, mode, send_only):
    if not needs_ack:
        return True, True
    acked = [e for e in group if e["acked"]]
    if not acked:
        return False, False
    exp = True
    if mode == "ackpl" and not send_only:
        a = ack_for(med, acked[0])
        if a is not None and a["pl"]:
            exp = bytearray(a["pl"])
    return exp, True


# ---------------------------------------------------------------------------- case sources
PRES = [[["ack", False]], [["ack", True], ["ack", False]], [["data_rate", 250]], [["dynamic_payloads", False], ["dynamic_payloads", True]],
        [["allow_ask_no_ack", True], ["auto_ack", True], ["crc", 2], ["payload_length", 32], ["address_length", 5], ["channel", 76]]]


def _enum(arcs, frs, drv="full", peer="full"):
    def gen():
        for arc in arcs:
            for fr in frs:
                n = (1 + arc) * (1 + fr)
                for word in itertools.product("DPA", repeat=n):
                    w = "".join(word)
                    for mode, ackpl in (("aa", []), ("ackpl", ["a1a2", "b1"]), ("ackpl", [])):
                        for so in (False, True):
                            for follow in (None, ["send", "5a5a5a", False, 0, so], ["resend", so]):
                                calls = [["send", "c0ffee01", False, fr, so]]
                                if follow:
                                    calls.append(follow)
                                yield {"drv": drv, "peer": peer, "rate": 1, "arc": arc, "ard": 1, "mode": mode,
                                       "listening": True, "ackpl": ackpl, "word": w, "default": "D", "calls": calls}
                # modes where no acknowledgement is awaited, and a deaf peer
                for mode, ana, listening in (("aa_off", False, True), ("aa", True, True), ("aa", False, False),
                                             ("aa_off", False, False), ("ackpl", True, True)):
                    if drv == "lite" and mode == "aa_off":
                        continue
                    for w in ("", "P", "A"):
                        for follow in (None, ["send", "5a", False, 0, False], ["resend", False]):
                            calls = [["send", "c0ffee01", ana, fr, False]]
                            if follow:
                                calls.append(follow)
                            base = {"drv": drv, "peer": peer, "rate": 1, "arc": arc, "ard": 1, "mode": mode,
                                    "listening": listening, "ackpl": ["0102"] if mode == "ackpl" else [], "word": w,
                                    "default": "D", "calls": calls}
                            yield base
                            for pre in PRES:
                                yield dict(base, pre=pre)
                # a short TX address opened after pipe 0 held a reading address and the radio went through RX mode
                n = (1 + arc) * (1 + fr)
                for short, p0 in (("c1c2c3", "314e6f6465"), ("d1", "a1a2a3a4a5"), ("e1e2e3e4", "3150")):
                    for w in ("D" * n, "A" * n, "P" + "D" * (n - 1)):
                        for so in (False, True):
                            yield {"drv": drv, "peer": peer, "rate": 1, "arc": arc, "ard": 1, "mode": "aa", "listening": True, "ackpl": [],
                                   "word": w, "default": "D", "calls": [["send", "c0ffee01", False, fr, so], ["resend", so]],
                                   "txaddr": {"short": short, "p0": p0}}
                # acknowledged modes after each pre-history, for the all-delivered / all-lost / ACK-lost words
                n = (1 + arc) * (1 + fr)
                for pre in PRES:
                    for mode, ackpl in (("aa", []), ("ackpl", ["a1a2"])):
                        for w in ("D" * n, "P" * n, "A" * n, "P" + "D" * (n - 1)):
                            for so in (False, True):
                                yield {"drv": drv, "peer": peer, "rate": 1, "arc": arc, "ard": 1, "mode": mode, "listening": True,
                                       "ackpl": ackpl, "word": w, "default": "D", "calls": [["send", "c0ffee01", False, fr, so], ["resend", so]],
                                       "pre": pre}
    return gen


def _enum_hist(depth, drv="full", peer="full"):
    """every history of `depth` calls over {send, resend} x send_only with one attempt per call
    (arc=0) and every outcome word; ACK payloads loaded so stale/own payload mix-ups show"""
    def gen():
        calls_alpha = [("send", True), ("send", False), ("resend", True), ("resend", False)]
        for mode, ackpl in (("ackpl", ["a1", "b2b2", "c3c3c3"]), ("aa", [])):
            for d in range(2, depth + 1):
                if mode == "aa" and d > 3:
                    continue
                for hist in itertools.product(calls_alpha, repeat=d):
                    if hist[0][0] == "resend":
                        continue
                    for word in itertools.product("DPA", repeat=d):
                        calls = []
                        for i, (k, so) in enumerate(hist):
                            if k == "send":
                                calls.append(["send", "%02x%02x" % (0x10 + i, 0x77), False, 0, so])
                            else:
                                calls.append(["resend", so])
                        yield {"drv": drv, "peer": peer, "rate": 1, "arc": 0, "ard": 1, "mode": mode, "listening": True,
                               "ackpl": ackpl, "word": "".join(word), "default": "D", "calls": calls}
    return gen


def _enum_interleaved(depth, drv="full", peer="full"):
    """every history of 2..depth send/resend calls with ONE read() or listen round trip inserted at every position after
    the first call, every outcome word; ACK payloads loaded (so that read() finds something) and plain auto-ack"""
    def gen():
        calls_alpha = [("send", True), ("send", False), ("resend", True), ("resend", False)]
        for mode, ackpl in (("ackpl", ["a1", "b2b2", "c3c3c3"]), ("aa", [])):
            for d in range(2, depth + 1):
                for hist in itertools.product(calls_alpha, repeat=d):
                    if hist[0][0] == "resend":
                        continue
                    for word in itertools.product("DPA", repeat=d):
                        base = []
                        for i, (k, so) in enumerate(hist):
                            base.append(["send", "%02x%02x" % (0x20 + i, 0x66), False, 0, so] if k == "send" else ["resend", so])
                        for pos in range(1, d):
                            for ins in (["read"], ["listen_cycle"], ["listen_cycle", "load"], ["ctx"], ["clear"]):
                                if (ins[0] == "read" or len(ins) > 1) and mode != "ackpl":
                                    continue
                                yield {"drv": drv, "peer": peer, "rate": 1, "arc": 0, "ard": 1, "mode": mode, "listening": True,
                                       "ackpl": ackpl, "word": "".join(word), "default": "D", "calls": base[:pos] + [ins] + base[pos:]}
    return gen


def strategy(drv="full", peer="full"):
    from hypothesis import strategies as st
    buf = st.binary(min_size=1, max_size=32).map(bytes.hex)
    send = st.tuples(st.just("send"), buf, st.booleans(), st.integers(0, 3), st.booleans()).map(list)
    sendl = st.tuples(st.just("sendl"), st.lists(buf, min_size=1, max_size=3, unique=True), st.booleans(),
                      st.integers(0, 2), st.booleans(), st.booleans()).map(list)
    resend = st.tuples(st.just("resend"), st.booleans()).map(list)
    modes = ["aa", "aa", "ackpl", "ackpl"] + ([] if drv == "lite" or peer == "lite" else ["aa_off"])
    return st.fixed_dictionaries({
        "drv": st.just(drv), "peer": st.just(peer),
        "rate": st.sampled_from([1, 2, 250]),
        "arc": st.one_of(st.integers(0, 3), st.integers(0, 15)),
        "ard": st.integers(0, 15),
        "mode": st.sampled_from(modes),
        "listening": st.sampled_from([True, True, True, False]),
        "ackpl": st.lists(st.binary(min_size=1, max_size=32).map(bytes.hex), max_size=3),
        "word": st.text(alphabet="DDPA", max_size=64),
        "default": st.sampled_from(["D", "D", "P", "A"]),
        "calls": st.lists(st.one_of(send, send, send, sendl, sendl, resend, resend, st.just(["read"]), st.just(["listen_cycle"]), st.just(["listen_cycle", "load"]), st.just(["ctx"]), st.just(["clear"])), min_size=1, max_size=6),
        "txaddr": st.one_of(st.none(), st.none(), st.fixed_dictionaries({"short": st.binary(min_size=1, max_size=4).map(bytes.hex), "p0": st.binary(min_size=2, max_size=5).map(bytes.hex)})),
        "mcu": st.fixed_dictionaries({"spi": st.sampled_from([8, 20, 100, 400]), "jit": st.sampled_from([0, 30]),
                                      "seed": st.integers(0, 999)}),
        "pre": st.one_of(st.just([]), st.just([]), st.lists(st.sampled_from(PRES), min_size=1, max_size=3).map(lambda ls: [o for l in ls for o in l])),
    })


def _parts(tier):
    if tier == "quick":
        return [Part("enum-arc<=1-fr<=1", "enum", _enum((0, 1), (0, 1)), exhaustive=True),
                Part("enum-histories-depth4", "enum", _enum_hist(4), exhaustive=True),
                Part("enum-histories-with-read-or-listen-between-depth3", "enum", _enum_interleaved(3), exhaustive=True),
                Part("generated", "gen", strategy, n=1500)]
    return [Part("enum-arc<=2-fr<=1", "enum", _enum((0, 1, 2), (0, 1)), exhaustive=True),
            Part("enum-histories-depth5", "enum", _enum_hist(5), exhaustive=True),
            Part("enum-histories-with-read-or-listen-between-depth4", "enum", _enum_interleaved(4), exhaustive=True),
            Part("generated", "gen", strategy, n=60000)]


def parts(tier):
    # the chip variant (plus / non-plus) is one more dimension of every case (linkutil.with_plus)
    return [with_plus(p) for p in _parts(tier)]
