"""C17 - mesh joins yield distinct working addresses; lookups give documented codes.

A master and 1..12 mesh nodes, each an unmodified RF24Mesh / RF24MeshNoMaster object on its own
simulated radio and task.  Phase 1: all nodes call renew_address() concurrently (drawn start
offsets).  Phase 2: a drawn script of lookups / sends / writes / check_connection / release /
re-join / parent power-loss, one call at a time.  Phase 3: all joined nodes look an ID up at the
same moment.  Oracle on a loss-free medium: the statement's clauses evaluated against the
master's public dhcp_dict and all queues; with a loss word only no-exception / termination /
valid-or-None are claimed."""
from vlib.harness.runner import Result, Part, exc_signature
from vlib.ref import netaddr
from vlib.sim.core import MS, SimHorizon
from vlib.checks.netutil import with_id0, Net, power_loss
from vlib.checks.c07_listen import CyclicLoss

PROPERTY = "C17"
LEVEL = "exploration"
RULE = ("a case = a master + 1..12 mesh nodes (RF24Mesh / RF24MeshNoMaster) with distinct drawn IDs, start offsets 0..60 ms and MCU "
        "timing models; more than 5 nodes force joins through relays; a script of up to 10 calls (lookup_address / lookup_node_id "
        "of known, unknown, 0 and None arguments, send to an ID, write to an address, check_connection with and without "
        "ping_master, release_address, re-join, power loss of a node) and a final concurrent lookup by all nodes; loss word: none "
        "(full claims) or drawn (safety claims only).  non-trivial = >= 3 nodes, or a join through a relay, or a negative lookup; "
        "distinct = SHA-1 of the case JSON")
ASSUMPTIONS = ["schedules are sampled through seeded MCU timing models and start offsets: the weakest claim of the set",
               "in the concurrent-lookup phase an answer of -1 (no answer) is accepted, a wrong value is not",
               "loss-free medium, first-locked-wins on overlap (simultaneous polls do collide; the join algorithm retries)"]
SHRINK_LISTS = ("script",)
SHRINK_BUDGET = {"quick": 12, "thorough": 60}  # one case costs seconds


def run_case(case):
    res = Result()
    net = Net(horizon_ms=3_600_000, spi_budget=40_000_000, id0=case.get("id0", 0))
    lossy = bool(set(case.get("loss", "D")) - {"D"})
    if lossy:
        net.med.fault = CyclicLoss(case["loss"])
    ids = [n["id"] for n in case["nodes"]]
    info = {"joins": {}, "script": [], "phase3": {}}
    timeout = case.get("timeout", 7.5)

    def key(i):
        return "n%d" % i

    def main():
        net.add("m", "mesh", 0, mcu=case.get("master_mcu"))
        for n in case["nodes"]:
            c0 = net.add(key(n["id"]), n["kind"], n["id"], mcu=n.get("mcu"))
            if case.get("cold_start"):
                c0.node.power = False  # the radio stays off until the node's application starts: no stale poll answers in its FIFO
        master = net.ctl["m"].node
        net.start(["m"])
        net.sim.advance(2 * MS)
        # ---- phase 1: concurrent joins
        boxes = {}
        order = sorted(case["nodes"], key=lambda n: n["offset"])
        t0 = net.sim.now
        for n in order:
            net.wait(lambda: net.sim.now - t0 >= n["offset"] * MS, max(1000, n["offset"] + 1000))
            for who in n.get("deny_before", ()):
                # applications of already joined nodes (or of the master) stop accepting children (public attribute)
                net.ctl["m" if who == "m" else key(who)].node.allow_children = False
            k = key(n["id"])
            if case.get("cold_start"):
                net.ctl[k].node.power = True
                net.sim.advance(5 * MS)
            net.start([k])

            def join(node, tmo=timeout):
                ts = net.sim.now
                a = node.renew_address(tmo)
                return a, net.sim.now - ts

            boxes[n["id"]] = net.post(k, join)
        net.wait(lambda: all(b["done"] or net.ctl[key(i)].task.done for i, b in boxes.items()), int(timeout * 1000) + 20000)
        net.settle(3000)
        info["joins"] = {i: (b.get("result"), b.get("exc"), b["done"]) for i, b in boxes.items()}
        info["table1"] = dict(master.dhcp_dict)
        info["addr1"] = {i: net.ctl[key(i)].node.node_address for i in ids}
        # ---- phase 2: scripted calls, one at a time
        dead = set()
        for op in case.get("script", []):
            k = op[0]
            i = ids[op[1] % len(ids)]
            ctl = net.ctl[key(i)]
            if i in dead:
                continue
            table = dict(master.dhcp_dict)
            addr_of = {j: net.ctl[key(j)].node.node_address for j in ids}
            entry = {"op": op, "id": i, "table": table, "addr": addr_of[i], "addr_of": addr_of, "dead": set(dead)}
            if k == "lookup_addr":
                arg = op[2]
                box = net.call(key(i), lambda node: node.lookup_address(arg), 20000)
            elif k == "lookup_id":
                arg = op[2]
                if arg == "of":
                    arg = addr_of[ids[op[3] % len(ids)]]
                    entry["arg"] = arg
                box = net.call(key(i), lambda node: node.lookup_node_id(arg), 20000)
            elif k == "send":
                tgt = op[2] if op[2] != "of" else ids[op[3] % len(ids)]
                entry["tgt"] = tgt
                net.drain_queues()
                box = net.call(key(i), lambda node: node.send(tgt, op[4], bytes.fromhex(op[5])), 20000)
                if len(op) > 6:
                    # a second, different message of the same type right away; the target's application reads afterwards
                    net.settle(300)
                    entry["box2"] = net.call(key(i), lambda node: node.send(tgt, op[4], bytes.fromhex(op[6])), 20000)
                net.settle(2000)
                entry["queues"] = net.drain_queues()
            elif k == "write":
                j = ids[op[2] % len(ids)]
                entry["tgt"] = j
                net.drain_queues()
                box = net.call(key(i), lambda node: node.write(addr_of[j], op[3], bytes.fromhex(op[4])), 20000)
                if len(op) > 5:
                    net.settle(300)
                    entry["box2"] = net.call(key(i), lambda node: node.write(addr_of[j], op[3], bytes.fromhex(op[5])), 20000)
                net.settle(2000)
                entry["queues"] = net.drain_queues()
            elif k == "check":
                box = net.call(key(i), lambda node: node.check_connection(2, bool(op[2])), 30000)
            if k in ("lookup_addr", "lookup_id", "check"):
                net.settle(1500)
                entry["table_after_lookup"] = dict(master.dhcp_dict)
            if k in ("lookup_addr", "lookup_id", "send", "write", "check"):
                pass  # done above; the entry is recorded below
            elif k == "release":
                if len(op) > 2:
                    # first a (possibly long) message to another node, then the release: whatever the send left in the
                    # node's buffers must not ride on the release frame
                    j = ids[op[2] % len(ids)]
                    net.call(key(i), lambda node: node.write(addr_of[j], 1, bytes(op[3])), 20000)
                    net.settle(1500)
                    net.drain_queues()
                box = net.call(key(i), lambda node: node.release_address(), 20000)
                net.settle(2000)
                entry["table_after"] = dict(master.dhcp_dict)
                entry["addr_after"] = ctl.node.node_address
            elif k == "rejoin":
                box = net.call(key(i), lambda node: node.renew_address(timeout), int(timeout * 1000) + 20000)
                net.settle(2000)
                entry["table_after"] = dict(master.dhcp_dict)
                entry["addr_after"] = ctl.node.node_address
            elif k == "pair_lookup":
                # a relay and its child look two different IDs up almost at the same moment (stagger in us;
                # negative: the relay asks first)
                pairs = [(j, c) for j in ids for c in ids if j != c and j not in dead and c not in dead
                         and addr_of[j] != 0o4444 and addr_of[c] != 0o4444 and netaddr.parent(addr_of[c]) == addr_of[j]]
                if not pairs:
                    continue
                rel, ch = pairs[op[1] % len(pairs)]
                others = [x for x in ids if x in table]
                t_rel, t_ch = others[op[1] % len(others)], others[(op[1] + 1) % len(others)]
                first, second = ((ch, t_ch), (rel, t_rel)) if op[2] >= 0 else ((rel, t_rel), (ch, t_ch))
                b1 = net.post(key(first[0]), lambda node, t=first[1]: node.lookup_address(t))
                net.sim.advance(abs(op[2]) * 1000)
                b2 = net.post(key(second[0]), lambda node, t=second[1]: node.lookup_address(t))
                net.wait(lambda: b1["done"] and b2["done"], 30000)
                net.settle(1500)
                entry["pair"] = [(first[0], first[1], b1.get("result"), table.get(first[1])), (second[0], second[1], b2.get("result"), table.get(second[1]))]
                entry["box"] = {"done": b1["done"] and b2["done"], "result": None}
                entry["table_after_lookup"] = dict(master.dhcp_dict)
                info["script"].append(entry)
                continue
            elif k == "mrelease":
                # the master's application expires node i's lease (public master API); the node is not told
                if addr_of[i] != 0o4444:
                    net.call("m", lambda node: node.release_address(addr_of[i]), 5000)
                continue
            elif k == "msend":
                # the master sends n user messages that need no NETWORK_ACK (type 1) to node i: traffic that the
                # node's relay forwards downstream between the node's own requests
                for _ in range(op[2]):
                    net.call("m", lambda node: node.send(i, 1, b"dn"), 20000)
                    net.settle(300)
                net.drain_queues()
                continue
            elif k == "mghost":
                # the master writes n user messages to an address nobody holds below node i's parent: the parent's radio
                # transmits (and gives up) n times without the master or node i receiving anything
                par = netaddr.parent(addr_of[i]) if addr_of[i] != 0o4444 else 0
                if par:
                    ghost = [par | (d << (3 * netaddr.level(par))) for d in (5, 4, 3) if (par | (d << (3 * netaddr.level(par)))) not in table.values()][0]
                    for _ in range(op[2]):
                        net.call("m", lambda node: node.write(ghost, 1, b"gh"), 20000)
                        net.settle(300)
                continue
            elif k == "kill":
                # power loss: the node stops running and its radio goes silent
                power_loss(net, key(i))
                dead.add(i)
                net.sim.advance(5 * MS)
                continue
            else:
                continue
            net.settle(1500)
            entry["box"] = box
            info["script"].append(entry)
            if not box.get("done"):
                break
        # ---- phase 3: everybody looks an ID up at the same moment
        alive = [i for i in ids if i not in dead and net.ctl[key(i)].node.node_address != 0o4444]
        info["phase3"] = {}
        if case.get("concurrent") and len(alive) >= 2 and not lossy:
            table = dict(master.dhcp_dict)
            for rnd, stagger in enumerate(case.get("staggers", [0])):
                boxes3 = {}
                for n, i in enumerate(alive):
                    tgt = alive[(n + 1 + rnd) % len(alive)]
                    boxes3[i] = (tgt, net.post(key(i), lambda node, tgt=tgt: node.lookup_address(tgt)))
                    if stagger:
                        net.sim.advance(stagger * 1000)
                net.wait(lambda: all(b["done"] for _t, b in boxes3.values()), 30000)
                net.settle(1500)
                for i, (t, b) in boxes3.items():
                    info["phase3"][(rnd, i)] = (t, b.get("result"), b.get("exc"), b["done"], table.get(t))
            info["table3"] = dict(master.dhcp_dict)
            if info["table3"] != table:
                info["phase3_disturbed"] = (table, info["table3"])
        net.settle(2000)
        info["master_exc"] = net.ctl["m"].exc

    try:
        net.sim.run_main(main)
    except SimHorizon:
        res.fail("C17/does-not-terminate", "virtual-time horizon reached")
        return res
    except Exception as e:  # noqa: BLE001
        res.fail(exc_signature("C17/raises", e), repr(e))
        return res
    # ---------------------------------------------------------------- oracle
    for k, exc, where in net.dead_tasks():
        sig = "C17/master-died" if k == "m" else "C17/node-raises"
        res.fail(exc_signature(sig, exc), "%s died in %s: %r" % (k, where, exc))
    n_nodes = len(ids)
    if n_nodes >= 3:
        res.nontrivial = True
    joined = {}
    for i, (r, exc, done) in info["joins"].items():
        if exc is not None:
            res.fail(exc_signature("C17/renew_address-raises", exc), "ID %d: %r" % (i, exc))
            continue
        if not done:
            res.fail("C17/renew_address-does-not-return", "ID %d" % i)
            continue
        a, dur = r
        # "within the given timeout" is claimed on a loss-free medium only (with packet loss: termination); the
        # timeout is tested between attempts, and one attempt (poll + up to 4 contacts x (225 ms + 2 lookups)) can
        # overrun it, which the allowance covers
        if not lossy and dur > timeout * 1000 * MS + 1500 * MS:
            res.fail("C17/renew_address-exceeds-timeout", "ID %d: %.0f ms with timeout %.1f s" % (i, dur / 1e6, timeout))
        if i in case.get("expect_none", ()):
            res.label("no-eligible-parent")
            if a is not None:
                res.fail("C17/address-although-no-eligible-parent", "ID %d was given 0o%o although every node that may have children refuses them" % (i, a))
            continue
        if a is None:
            if not lossy and timeout < 7.5:
                res.label("short-timeout-join-not-judged")  # (replays of older cases: a 2 s timeout on a loss-free medium)
            elif not lossy:
                res.fail("C17/join-failed/%s" % ("relay-needed" if n_nodes > 5 else "direct"), "ID %d got no address within %.1f s (%d nodes)" % (
                    i, timeout, n_nodes))
            continue
        if not netaddr.is_node_address(a) or a in (0, 0o4444):
            res.fail("C17/join-invalid-address", "ID %d was given 0o%o" % (i, a))
            continue
        joined[i] = a
        if netaddr.level(a) >= 2:
            res.nontrivial = True
            res.label("joined-through-relay")
    if not lossy:
        foreign = sorted(set(info.get("table1", {})) - set(ids))
        if foreign:
            res.fail("C17/table-foreign-entry", "the master's table holds IDs %s which never asked (nodes: %s)" % (foreign, sorted(ids)))
        vals = list(joined.values())
        if len(set(vals)) != len(vals):
            dup = [a for a in set(vals) if vals.count(a) > 1][0]
            res.fail("C17/two-nodes-one-address", "IDs %s all hold 0o%o" % (sorted(i for i, a in joined.items() if a == dup), dup))
        for i, a in joined.items():
            if info["table1"].get(i) != a:
                res.fail("C17/table-disagrees-with-node", "ID %d holds 0o%o, the master's table says %r" % (i, a, info["table1"].get(i)))
            if info["addr1"].get(i) != a:
                res.fail("C17/node_address-differs-from-returned", "ID %d" % i)
    for e in info["script"]:
        op, i, box = e["op"], e["id"], e.get("box", {})
        k = op[0]
        if not box.get("done"):
            res.fail("C17/%s-does-not-return" % k, "ID %d" % i)
            continue
        if "exc" in box:
            res.fail(exc_signature("C17/%s-raises" % k, box["exc"]), "ID %d: %r" % (i, box["exc"]))
            continue
        if lossy:
            continue
        res.label("judged-" + k)  # the share of scripted calls whose result was actually compared
        r = box.get("result")
        table, my = e["table"], e["addr"]
        if "table_after_lookup" in e and e["table_after_lookup"] != table:
            res.fail("C17/asking-disturbs-the-master", "the master's table changed from %r to %r over %s by ID %d" % (
                sorted(table.items()), sorted(e["table_after_lookup"].items()), k, i))
        # a node is reachable only through nodes that are running AND still hold the address it joined under:
        # a parent that released or re-joined elsewhere orphans its children
        present = {0} | {a for j, a in e["addr_of"].items() if a != 0o4444 and j not in e["dead"]}

        def route_ok(a, b):
            return all(x in present for x in netaddr.tree_path(a, b))

        parent_dead = my != 0o4444 and netaddr.parent(my) not in present
        route_dead = my != 0o4444 and not route_ok(my, 0)
        if k == "pair_lookup":
            res.nontrivial = True
            res.label("relay-child-concurrent-lookup")
            for who, tgt, got, exp in e["pair"]:
                if got != -1 and got != exp:
                    res.fail("C17/concurrent-lookup-wrong-answer", "ID %d asked for ID %d and got %r, the table says %r (relay and child "
                             "asking %d us apart)" % (who, tgt, got, exp, op[2]))
        elif k == "lookup_addr":
            arg = op[2]
            if not arg:
                exp = 0
            elif my == 0o4444:
                exp = -2
            elif route_dead:
                exp = -1
            else:
                exp = table.get(arg, -2)
            if exp == -2:
                res.nontrivial = True
                res.label("negative-lookup")
            if r != exp:
                what = "unknown-id" if exp == -2 else ("trivial" if not arg else "known-id")
                res.fail("C17/lookup_address/" + what, "ID %d (0o%o) lookup_address(%r) = %r, expected %r" % (i, my, arg, r, exp))
        elif k == "lookup_id":
            arg = e.get("arg", op[2])
            if arg is None:
                exp = i
            elif arg == 0:
                exp = 0
            elif my == 0o4444:
                exp = -2
            elif route_dead:
                exp = -1
            else:
                inv = {a: j for j, a in table.items()}
                exp = inv.get(arg, -2)
            if exp == -2:
                res.nontrivial = True
                res.label("negative-lookup")
            if r != exp:
                what = "unknown-address" if exp == -2 else ("trivial" if not arg else "known-address")
                res.fail("C17/lookup_node_id/" + what, "ID %d (0o%o) lookup_node_id(%r) = %r, expected %r" % (
                    i, my, arg if arg is None else oct(arg), r, exp))
        elif k in ("send", "write"):
            tgt = e["tgt"]
            msg = bytes.fromhex(op[5] if k == "send" else op[4])
            typ = op[4] if k == "send" else op[3]
            if tgt not in ids or tgt in e["dead"] or route_dead or my == 0o4444:
                continue
            tgt_addr = e["addr_of"].get(tgt)
            if tgt_addr in (None, 0o4444) or (k == "send" and table.get(tgt) != tgt_addr):
                continue
            if not route_ok(my, tgt_addr):
                continue
            if len(msg) > 24 and len(netaddr.tree_path(my, tgt_addr)) > 1 and tgt != i:
                continue  # routed fragmented messages: known finding of C05
            got = [f for f in e["queues"].get("n%d" % tgt, []) if f[3] == typ and f[5] == msg and f[0] == my]
            if typ in (130,) or typ > 127:
                continue
            if len(got) != 1:
                res.fail("C17/%s-not-delivered" % k, "ID %d (0o%o) %s to ID %d (0o%o): target queue holds it %d times; returned %r" % (
                    i, my, k, tgt, tgt_addr, len(got), r))
            if (k == "send" and len(op) > 6) or (k == "write" and len(op) > 5):
                msg2 = bytes.fromhex(op[6] if k == "send" else op[5])
                got2 = [f for f in e["queues"].get("n%d" % tgt, []) if f[3] == typ and f[5] == msg2 and f[0] == my]
                res.label("two-messages-before-the-target-reads")
                if len(got2) != 1:
                    res.fail("C17/second-message-not-delivered", "ID %d (0o%o) sent two different type-%d messages to ID %d before it read its queue: the second is "
                             "held %d times (the first %d)" % (i, my, typ, tgt, len(got2), len(got)))
        elif k == "check":
            exp = my != 0o4444 and not (parent_dead if not op[2] else route_dead)
            if netaddr.parent(my) == 0 and my != 0o4444:
                exp = True
            if op[2] and my != 0o4444 and not route_dead and table.get(i) != my:
                exp = False  # asked to verify with the master, whose table no longer maps this ID to the node's address
            if r is not exp:
                res.fail("C17/check_connection/%s" % ("expected-true" if exp else "expected-false"), "ID %d (0o%o) check_connection(ping_master=%r) = %r" % (
                    i, my, bool(op[2]), r))
        elif k == "release":
            if my == 0o4444:
                if r is not False:
                    res.fail("C17/release-unassigned", "release_address() of an unassigned node returned %r" % (r,))
            elif not route_dead:
                if r is not True or e["addr_after"] != 0o4444:
                    res.fail("C17/release-node-side", "ID %d: release_address() = %r, node_address 0o%o afterwards" % (i, r, e["addr_after"]))
                elif i in e["table_after"] and e["table_after"][i] == my:
                    res.fail("C17/release-lease-not-freed", "ID %d released 0o%o but the master's table still holds it" % (i, my))
        elif k == "rejoin":
            if r is None:
                if not e["dead"]:
                    res.fail("C17/rejoin-failed", "ID %d got no address" % i)
            else:
                others = {j: a for j, a in e["addr_of"].items() if j != i and a != 0o4444 and j not in e["dead"]}
                if r in others.values():
                    res.fail("C17/two-nodes-one-address", "re-joining ID %d was given 0o%o which ID %d holds" % (
                        i, r, [j for j, a in others.items() if a == r][0]))
                if e["table_after"].get(i) != r:
                    res.fail("C17/table-disagrees-with-node", "ID %d re-joined as 0o%o, table says %r" % (i, r, e["table_after"].get(i)))
    if "phase3_disturbed" in info:
        res.fail("C17/asking-disturbs-the-master", "concurrent lookups changed the master's table from %r to %r" % (
            sorted(info["phase3_disturbed"][0].items()), sorted(info["phase3_disturbed"][1].items())))
    for (_rnd, i), (tgt, r, exc, done, exp) in info["phase3"].items():
        if exc is not None:
            res.fail(exc_signature("C17/concurrent-lookup-raises", exc), repr(exc))
        elif not done:
            res.fail("C17/concurrent-lookup-does-not-return", "ID %d" % i)
        elif r != -1 and r != (exp if exp is not None else -2):
            res.fail("C17/concurrent-lookup-wrong-answer", "ID %d asked for ID %d and got %r, the table says %r" % (i, tgt, r, exp))
    res.label("nodes%02d" % n_nodes, "lossy" if lossy else "loss-free")
    return res


def _strategy(max_nodes=12):
    from hypothesis import strategies as st
    mcu = st.fixed_dictionaries({"spi": st.sampled_from([50, 100, 200, 400]), "jit": st.sampled_from([0, 30]),
                                 "seed": st.integers(0, 9999), "poll": st.sampled_from([100, 500, 2000])})

    @st.composite
    def case(draw):
        n = draw(st.one_of(st.integers(2, min(6, max_nodes)), st.integers(1, max_nodes), st.integers(6, max_nodes)))
        ids = draw(st.lists(st.integers(1, 255), min_size=n, max_size=n, unique=True))
        nodes = [{"id": i, "kind": draw(st.sampled_from(["mesh", "meshnm"])), "offset": draw(st.sampled_from([0, 0, 1, 5, 20, 60])),
                  "mcu": draw(mcu)} for i in ids]
        idx = st.integers(0, n - 1)
        known = st.sampled_from(ids)
        op = st.one_of(
            st.tuples(st.just("lookup_addr"), idx, st.one_of(known, known, st.integers(1, 255), st.sampled_from([0, None]))),
            st.tuples(st.just("lookup_id"), idx, st.just("of"), idx),
            st.tuples(st.just("lookup_id"), idx, st.sampled_from([0, None, 0o5, 0o15, 0o444, 0o123])),
            st.tuples(st.just("send"), idx, st.just("of"), idx, st.sampled_from([0, 1, 65, 100]), st.binary(max_size=60).map(bytes.hex)),
            st.tuples(st.just("write"), idx, idx, st.sampled_from([0, 65]), st.binary(max_size=24).map(bytes.hex)),
            st.tuples(st.just("check"), idx, st.booleans()),
            st.tuples(st.just("release"), idx), st.tuples(st.just("rejoin"), idx),
            st.tuples(st.just("release"), idx, idx, st.sampled_from([0, 10, 25, 48, 100, 144])),
            st.tuples(st.just("kill"), idx),
        ).map(list)
        lossy = draw(st.integers(0, 5)) == 0
        word = draw(st.text(alphabet="DDDDDPA", min_size=2, max_size=15)) if lossy else "D"
        # loss-free cases (also a drawn word without any P or A) join with the library's default timeout, on which the
        # "within the given timeout" clause is judged; lossy cases use a short one (only termination is claimed there)
        return {"nodes": nodes, "master_mcu": draw(mcu), "script": draw(st.lists(op, max_size=10)), "concurrent": draw(st.booleans()),
                "staggers": draw(st.lists(st.sampled_from([0, 100, 300, 700, 1500, 3000]), min_size=1, max_size=3)),
                "loss": word, "timeout": 7.5 if not set(word) - {"D"} else 2.0}

    return case()


def _pair_sweep(step):
    """six nodes join one after the other (five fill level 1, the sixth joins through a relay); then a relay and its
    child look IDs up with their requests staggered from -3 ms to +3 ms"""
    def gen():
        ids = [11, 22, 33, 44, 55, 66]
        nodes = [{"id": i, "kind": "mesh", "offset": 400 * n, "mcu": {"spi": 50, "jit": 0, "seed": n, "poll": 100}} for n, i in enumerate(ids)]
        for st_us in range(-3000, 3001, step):
            yield {"nodes": nodes, "master_mcu": {"spi": 50, "jit": 0, "seed": 7, "poll": 100}, "script": [["pair_lookup", 0, st_us], ["pair_lookup", 1, st_us]],
                   "concurrent": False, "loss": "D", "timeout": 7.5}
    return gen


def _release_after_send():
    """a joined node sends a message of every length class to its parent side, then releases its address"""
    ids = [11, 22, 33]
    nodes = [{"id": i, "kind": "mesh" if n % 2 else "meshnm", "offset": 400 * n, "mcu": {"spi": 50, "jit": 0, "seed": n, "poll": 100}} for n, i in enumerate(ids)]
    for ln in (0, 1, 24, 25, 48, 49, 100, 144):
        for who in (0, 1, 2):
            yield {"nodes": nodes, "master_mcu": {"spi": 50, "jit": 0, "seed": 7, "poll": 100},
                   "script": [["release", who, (who + 1) % 3, ln], ["lookup_addr", (who + 1) % 3, ids[who]]], "concurrent": False, "loss": "D", "timeout": 7.5}


def _addresses_swapped_between_sends():
    """a node sends to an ID; that ID and another one release and re-join in the opposite order, so that the other ID now
    holds the address the first one had; the node sends to both IDs again: each message arrives at the ID it was sent to"""
    ids = [11, 22, 44, 66]
    nodes = [{"id": i, "kind": "mesh" if n % 2 else "meshnm", "offset": 400 * n, "mcu": {"spi": 50, "jit": 0, "seed": n, "poll": 100}} for n, i in enumerate(ids)]
    for s_ in range(4):
        for x in range(4):
            for y in range(4):
                if len({s_, x, y}) < 3:
                    continue
                script = [["send", s_, "of", x, 65, "aa01"], ["release", x], ["release", y], ["rejoin", y], ["rejoin", x],
                          ["send", s_, "of", x, 65, "bb02"], ["send", s_, "of", y, 1, "cc03"], ["lookup_addr", s_, ids[x]]]
                yield {"nodes": nodes, "master_mcu": {"spi": 50, "jit": 0, "seed": 7, "poll": 100}, "script": script, "concurrent": False, "loss": "D", "timeout": 7.5}


def _repeated_lookup(reps):
    """six nodes join one after the other; the node behind a relay (and, as a control, a level-1 node) asks the SAME
    question several times with 0..4 downstream frames through the relay in between - the relay's 2-bit packet ID
    comes round to the value it had for the previous, otherwise identical, request"""
    ids = [11, 22, 33, 44, 55, 66]
    nodes = [{"id": i, "kind": "mesh", "offset": 400 * n, "mcu": {"spi": 50, "jit": 0, "seed": n, "poll": 100}} for n, i in enumerate(ids)]
    for who in (5, 0):
        for kind, arg in (("lookup_addr", 22), ("lookup_id", "of")):
            for k in range(0, 5):
                for between in ("msend", "mghost"):
                    if between == "mghost" and (k == 0 or who != 5):
                        continue
                    script = []
                    for _ in range(reps):
                        script.append([kind, who, arg] + ([1] if arg == "of" else []))
                        if k:
                            script.append([between, 5, k])
                    yield {"nodes": nodes, "master_mcu": {"spi": 50, "jit": 0, "seed": 7, "poll": 100}, "script": script,
                           "concurrent": False, "loss": "D", "timeout": 7.5}
                continue
                yield {"nodes": nodes, "master_mcu": {"spi": 50, "jit": 0, "seed": 7, "poll": 100}, "script": script,
                       "concurrent": False, "loss": "D", "timeout": 7.5}


def _master_side_release():
    """the master's application releases a node's lease behind its back; the node then asks about itself, pings, re-joins"""
    ids = [11, 22, 33, 44, 55, 66]
    nodes = [{"id": i, "kind": "mesh", "offset": 400 * n, "mcu": {"spi": 50, "jit": 0, "seed": n, "poll": 100}} for n, i in enumerate(ids)]
    for who in (0, 2, 5):
        other = (who + 1) % len(ids)
        script = [["lookup_addr", who, ids[who]], ["mrelease", who], ["lookup_addr", who, ids[who]], ["check", who, True], ["check", who, False],
                  ["lookup_addr", other, ids[who]], ["lookup_id", who, "of", other], ["rejoin", who], ["check", who, True], ["lookup_addr", who, ids[who]]]
        yield {"nodes": nodes, "master_mcu": {"spi": 50, "jit": 0, "seed": 7, "poll": 100}, "script": script, "concurrent": False, "loss": "D", "timeout": 7.5}


def _only_one_parent_left():
    """k nodes join one after the other; then the master and all of them but one stop accepting children, and another node
    joins: it has to go through that one (every contact address 0o1..0o5, and a level-2 contact)"""
    base = [11, 22, 33, 44, 55]
    for k in (3, 5):
        for keep in range(k):
            ids = base[:k] + [99]
            nodes = [{"id": i, "kind": "mesh", "offset": 400 * n, "mcu": {"spi": 50, "jit": 0, "seed": n, "poll": 100}} for n, i in enumerate(ids)]
            nodes[-1]["offset"] = 400 * k + 1500
            nodes[-1]["deny_before"] = ["m"] + [i for j, i in enumerate(base[:k]) if j != keep]
            yield {"nodes": nodes, "master_mcu": {"spi": 50, "jit": 0, "seed": 7, "poll": 100}, "concurrent": False, "loss": "D", "timeout": 7.5,
                   "script": [["lookup_addr", k, 99], ["send", 0, "of", k, 1, "6f6b"], ["check", k, True]]}
    # a level-2 contact: five fill level 1, the sixth joins below one of them, then only the sixth accepts children
    ids = base + [66, 99]
    nodes = [{"id": i, "kind": "mesh", "offset": 400 * n, "mcu": {"spi": 50, "jit": 0, "seed": n, "poll": 100}} for n, i in enumerate(ids)]
    nodes[-1]["offset"] = 400 * 6 + 2500
    nodes[-1]["deny_before"] = ["m"] + base
    yield {"nodes": nodes, "master_mcu": {"spi": 50, "jit": 0, "seed": 7, "poll": 100}, "concurrent": False, "loss": "D", "timeout": 7.5,
           "script": [["lookup_addr", 6, 99], ["send", 0, "of", 6, 1, "6f6b"], ["check", 6, True]]}


def _nobody_but_a_level4_node():
    """a chain is built by closing every parent but the newest one after each join (0o5, 0o15, 0o115, 0o1115); then that
    last parent is closed too except the level-4 node, which cannot have children: the next node must come back with
    None, not with an address, and must not raise"""
    ids = [11, 22, 33, 44, 99]
    nodes = [{"id": i, "kind": "mesh", "offset": 8000 * n, "mcu": {"spi": 50, "jit": 30, "seed": 10 + n, "poll": 100}} for n, i in enumerate(ids)]
    nodes[1]["deny_before"] = ["m"]
    nodes[2]["deny_before"] = [11]
    nodes[3]["deny_before"] = [22]
    nodes[4]["deny_before"] = [33]
    yield {"nodes": nodes, "master_mcu": {"spi": 50, "jit": 0, "seed": 7, "poll": 100}, "concurrent": False, "loss": "D", "timeout": 7.5,
           "expect_none": [99], "cold_start": True, "script": [["lookup_addr", 3, 44], ["check", 3, True]]}


def _small_ids_all_pairs():
    """node IDs 1..5 (and 8..13, the numeric values of level-2 addresses) joined in ascending and descending order, so that
    IDs coincide numerically with other nodes' addresses; then every node sends to every other node ID"""
    for ids in ([1, 2, 3, 4, 5], [5, 4, 3, 2, 1], [3, 9, 1, 11, 5, 10, 12], [12, 10, 5, 11, 1, 9, 3]):
        nodes = [{"id": i, "kind": "mesh", "offset": 400 * n, "mcu": {"spi": 50, "jit": 0, "seed": n, "poll": 100}} for n, i in enumerate(ids)]
        script = [["send", a, "of", b, 1, "%02x%02x" % (a, b)] + (["%02x%02xff" % (b, a)] if (a + b) % 2 else []) for a in range(len(ids)) for b in range(len(ids)) if a != b]
        script += [op for a in range(len(ids)) for b in range(len(ids)) if a != b for op in (["lookup_id", a, "of", b], ["lookup_addr", a, ids[b]])]
        script += [["write", a, b, 2, "%02x%02x01" % (a, b), "%02x%02x02" % (a, b)] for a in range(len(ids)) for b in range(len(ids)) if a != b and (a + b) % 2 == 0]
        yield {"nodes": nodes, "master_mcu": {"spi": 50, "jit": 0, "seed": 7, "poll": 100}, "script": script, "concurrent": False, "loss": "D", "timeout": 7.5}


def _parts(tier):
    if tier == "quick":
        return [Part("relay-child-stagger-sweep", "enum", _pair_sweep(200), exhaustive=True),
                Part("ids-equal-to-address-values-all-pairs", "enum", _small_ids_all_pairs, exhaustive=True),
                Part("master-side-release", "enum", _master_side_release, exhaustive=True),
                Part("only-one-parent-left", "enum", _only_one_parent_left, exhaustive=True),
                Part("nobody-but-a-level-4-node", "enum", _nobody_but_a_level4_node, exhaustive=True),
                Part("repeated-identical-lookups", "enum", lambda: _repeated_lookup(4), exhaustive=True),
                Part("release-after-send", "enum", _release_after_send, exhaustive=True),
                Part("addresses-swapped-between-sends", "enum", _addresses_swapped_between_sends, exhaustive=True), Part("generated", "gen", lambda: _strategy(8), n=96)]
    return [Part("relay-child-stagger-sweep", "enum", _pair_sweep(25), exhaustive=True),
            Part("ids-equal-to-address-values-all-pairs", "enum", _small_ids_all_pairs, exhaustive=True),
            Part("master-side-release", "enum", _master_side_release, exhaustive=True),
            Part("only-one-parent-left", "enum", _only_one_parent_left, exhaustive=True),
            Part("nobody-but-a-level-4-node", "enum", _nobody_but_a_level4_node, exhaustive=True),
            Part("repeated-identical-lookups", "enum", lambda: _repeated_lookup(8), exhaustive=True),
            Part("release-after-send", "enum", _release_after_send, exhaustive=True),
            Part("addresses-swapped-between-sends", "enum", _addresses_swapped_between_sends, exhaustive=True), Part("generated", "gen", lambda: _strategy(12), n=3000)]


def parts(tier):
    # every case also carries a starting value of the 16-bit frame-id counter (netutil.with_id0)
    return [with_id0(p) for p in _parts(tier)]
