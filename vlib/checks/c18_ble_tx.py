"""C18 - every advertisement is a well-formed BLE packet for the channel it is sent on.

Oracle: the bytes of the W_TX_PAYLOAD command and the RF_CH register are read from the
simulated chip; the independent bit-serial BLE reference (vlib.ref.ble) turns them into the
on-air bit stream, de-whitens with the channel index implied by RF_CH (2->37, 26->38,
80->39) and parses the PDU.  The library's own receiver is not used as an oracle."""
import struct

from vlib import boot
from vlib.harness.runner import Result, Part, exc_signature
from vlib.ref import ble
from vlib.sim.core import Sim, SimHorizon
from vlib.sim.radio import Chip, Medium
from vlib.sim.shims import make_spidev_radio

PROPERTY = "C18"
LEVEL = "exploration"
RULE = ("a case = MAC (6 bytes / int / None) + a history of name (None/str/bytes of 0..20), show_pa_level, pa_level, "
        "hop_channel(), channel= (valid and invalid), with-block exit/enter, and advertise() calls whose chunk lists are "
        "constructed to land at capacity-1, capacity, capacity+1 and elsewhere, as single buffer+type / list / tuple; "
        "non-trivial = an advertise() that loaded a packet while a name or PA field was present, or at the capacity boundary, "
        "or after a channel assignment / with-block; distinct = SHA-1 of the case JSON")
ASSUMPTIONS = ["BLE link-layer reference vlib/ref/ble.py written from the Core specification; it reproduces the published "
               "channel-37 whitening sequence 8D D2 57 A1 .. and the library test-suite's CRC vector",
               "a with-block exit resets name and show_pa_level (FakeBLE.__exit__), the model follows that"]
SHRINK_LISTS = ("ops", "chunks")


def run_case(case):
    L = boot.lib()
    res = Result()
    sim = Sim(spi_budget=200000)
    chip = Chip(sim, Medium(sim), "B")
    try:
        b = make_spidev_radio(L.FakeBLE, chip)
        m = case["mac"]
        b.mac = None if m is None else (m if isinstance(m, int) else bytes.fromhex(m))
        mac = bytes(b.mac)
        b.__enter__()  # documented usage: FakeBLE is driven inside its with-block (the radio is powered down outside)
        if isinstance(m, int) and mac != m.to_bytes(6, "little"):
            res.fail("C18/mac-int", "mac %r for %x" % (mac, m))
        if isinstance(m, str) and mac != bytes.fromhex(m):
            res.fail("C18/mac-bytes", "mac %r for %s" % (mac, m))
    except Exception as e:  # noqa: BLE001
        res.fail(exc_signature("C18/raises", e), repr(e))
        return res
    name, show_pa, pa = None, False, 0
    after_switch = False
    other_obj = None
    for op in case["ops"]:
        k = op[0]
        try:
            if k == "name":
                v = op[1]
                nb = None if v is None else (v["s"].encode("utf-8") if "s" in v else bytes.fromhex(v["b"]))
                arg = None if v is None else (v["s"] if "s" in v else nb)
                try:
                    b.name = arg
                    name = nb
                except ValueError:
                    if nb is not None and len(nb) + 2 + (3 if show_pa else 0) <= 18:
                        res.fail("C18/name-rejected", "a %d byte name that fits was rejected" % len(nb))
            elif k == "show_pa":
                try:
                    b.show_pa_level = op[1]  # documented as a bool; any truthy / falsy value (1, a masked flag word) switches it
                    show_pa = bool(op[1])
                except ValueError:
                    if not (op[1] and name is not None and len(name) + 2 + 3 > 18):
                        res.fail("C18/show_pa_level-rejected", "show_pa_level=%r rejected with a %s byte name" % (
                            op[1], None if name is None else len(name)))
            elif k == "pa_level":
                # an int, or the documented (level, LNA enable) list / tuple form: the advertised value is the level
                v = op[1]
                b.pa_level = v if isinstance(v, int) else (tuple(v["t"]) if isinstance(v, dict) else list(v))
                pa = v if isinstance(v, int) else (v["t"][0] if isinstance(v, dict) else v[0])
            elif k == "hop":
                b.hop_channel()
                if chip.reg[5] not in ble.RF_CH_TO_BLE:
                    res.fail("C18/non-ble-frequency", "RF_CH %d after hop_channel()" % chip.reg[5])
            elif k == "channel":
                try:
                    b.channel = op[1]
                except ValueError:
                    pass
                after_switch = True
                if chip.reg[5] not in ble.RF_CH_TO_BLE:
                    res.fail("C18/non-ble-frequency", "RF_CH %d after channel = %r" % (chip.reg[5], op[1]))
            elif k == "ctx":
                b.__exit__(None, None, None)
                b.__enter__()
                name, show_pa = None, False
                after_switch = True
            elif k == "other":
                # the `with` blocks of the property: between two blocks of the FakeBLE object another driver object on the
                # same radio (examples/nrf24l01_context_test.py) has its own block on its own frequency and payload length
                b.__exit__(None, None, None)
                if other_obj is None:
                    other_obj = make_spidev_radio(L.RF24, chip)
                with other_obj:
                    other_obj.channel = op[1]
                    other_obj.payload_length = op[2]
                b.__enter__()
                name, show_pa = None, False
                after_switch = True
                res.label("another-objects-block-in-between")
            elif k == "adv":
                chunks = [ble.ad(t, bytes.fromhex(h)) for t, h in op[2]]
                form = op[1]
                total = sum(len(c) for c in chunks)
                cap = 18 - (0 if name is None else len(name) + 2) - (3 if show_pa else 0)
                la = b.len_available()
                if la != cap:
                    res.fail("C18/len_available", "len_available() = %r, free bytes %d" % (la, cap))
                if chunks:
                    la2 = b.len_available(chunks[0])
                    if la2 != cap - len(chunks[0]):
                        res.fail("C18/len_available", "len_available(chunk of %d) = %r, expected %d" % (len(chunks[0]), la2, cap - len(chunks[0])))
                # the caller's container is built once and, like the documentation's example loop, may be handed to
                # advertise() several times with a channel hop in between; it must come back unchanged
                if form == "single":
                    t, h = op[2][0] if op[2] else (0xFF, "")
                    chunks = [ble.ad(t, bytes.fromhex(h))] if h else []
                    total = sum(len(c) for c in chunks)
                    cont = bytes.fromhex(h)
                elif form == "list":
                    cont = [bytes(c) for c in chunks]
                elif form == "list_ba":
                    cont = [bytearray(c) for c in chunks]
                else:
                    cont = tuple(bytearray(c) for c in chunks)
                reps = op[3] if len(op) > 3 else 1
                for rep in range(reps):
                    if rep:
                        b.hop_channel()
                        after_switch = False
                        res.label("same-container-advertised-again")
                    n_trace = len(chip.trace)
                    raised = None
                    try:
                        if form == "single":
                            b.advertise(cont, t)
                        else:
                            b.advertise(cont)
                    except ValueError as e:
                        raised = e
                    loads = [d for (_t, c, d) in chip.trace[n_trace:] if c in (0xA0, 0xB0)]
                    if form != "single" and [bytes(c) for c in cont] != [bytes(c) for c in chunks]:
                        # not a clause of C18 by itself; what the NEXT advertise() of this container emits is judged
                        # against the chunks as the caller built them
                        res.label("library-changed-callers-container")
                    fits = total <= cap
                    if abs(total - cap) <= 1:
                        res.label("capacity-boundary")
                    if not fits:
                        if raised is None:
                            res.fail("C18/oversize-accepted", "%d bytes of data with %d free were accepted" % (total, cap))
                        if loads:
                            res.fail("C18/oversize-loaded", "a packet was loaded although advertise() must refuse it")
                        continue
                    if raised is not None:
                        res.fail("C18/fitting-packet-refused", "%d bytes of data with %d free raised %r" % (total, cap, raised))
                        continue
                    if len(loads) != 1:
                        res.fail("C18/payload-loads", "%d W_TX_PAYLOAD commands for one advertise()" % len(loads))
                        continue
                    if name is not None or show_pa or abs(total - cap) <= 1 or after_switch:
                        res.nontrivial = True
                    rfch = chip.reg[5]
                    if rfch not in ble.RF_CH_TO_BLE:
                        res.fail("C18/non-ble-frequency", "advertising on RF_CH %d" % rfch)
                        continue
                    ch = ble.RF_CH_TO_BLE[rfch]
                    p = ble.parse_radio_payload(loads[0], ch)
                    sw = "/after-channel-assignment" if after_switch else ""
                    if "error" in p or not p["crc_ok"] or p["header"] != 0x42:
                        # is it well-formed for another advertising channel?  (diagnosis only)
                        other = [c for c in (37, 38, 39) if c != ch and ble.parse_radio_payload(loads[0], c).get("crc_ok")]
                        if other:
                            res.fail("C18/whitened-for-another-channel" + sw, "radio tuned to RF_CH %d (BLE %d) but the packet is "
                                     "whitened for BLE channel %d" % (rfch, ch, other[0]))
                        elif "error" in p:
                            res.fail("C18/malformed-pdu", p["error"])
                        elif p["header"] != 0x42:
                            res.fail("C18/pdu-header", "PDU header 0x%02X, expected 0x42 (ADV_NONCONN_IND, TxAdd)" % p["header"])
                        else:
                            res.fail("C18/crc", "CRC-24 does not match the PDU")
                        continue
                    exp_ads = [(0x01, b"\x05")]
                    if show_pa:
                        exp_ads.append((0x0A, struct.pack("b", pa)))
                    if name is not None:
                        exp_ads.append((0x08, name))
                    exp_raw = b"".join(ble.ad(t, d) for t, d in exp_ads) + b"".join(chunks)
                    if p["length_byte"] != 6 + len(exp_raw):
                        res.fail("C18/length-byte", "PDU length byte %d, expected %d" % (p["length_byte"], 6 + len(exp_raw)))
                    if p["mac"] != mac:
                        res.fail("C18/mac", "AdvA %s, configured %s" % (p["mac"].hex(), mac.hex()))
                    if p["raw_ad"] != exp_raw:
                        got_fixed = p["raw_ad"][:len(exp_raw) - len(b"".join(chunks))]
                        if got_fixed != exp_raw[:len(got_fixed)]:
                            res.fail("C18/fixed-fields", "flags/PA/name fields %s, expected %s" % (
                                got_fixed.hex(), exp_raw[:len(exp_raw) - len(b"".join(chunks))].hex()))
                        else:
                            res.fail("C18/chunks-not-verbatim", "data structures %s, caller gave %s" % (
                                p["raw_ad"][len(got_fixed):].hex(), b"".join(chunks).hex()))
                    if p["total"] > 32:
                        res.fail("C18/longer-than-32", "%d bytes" % p["total"])
        except SimHorizon:
            res.fail("C18/call-does-not-return", "%r did not return" % (op[:2],))
            break
        except Exception as e:  # noqa: BLE001
            res.fail(exc_signature("C18/raises", e), "%r: %r" % (op[:2], e))
            break
    if chip.illegal:
        res.fail("C18/illegal-spi", chip.illegal[0][1])
    return res


def _strategy():
    from hypothesis import strategies as st
    namev = st.one_of(st.none(), st.text(alphabet="abcXYZ019 _-", max_size=20).map(lambda s: {"s": s}),
                      st.binary(max_size=20).map(lambda b: {"b": b.hex()}),
                      st.text(alphabet="aé€", max_size=8).map(lambda s: {"s": s}))

    @st.composite
    def case(draw):
        mac = draw(st.one_of(st.none(), st.integers(0, 2 ** 48 - 1), st.binary(min_size=6, max_size=6).map(bytes.hex)))
        ops = []
        name_len, show = None, False
        for _ in range(draw(st.integers(1, 10))):
            k = draw(st.sampled_from(["name", "show_pa", "pa_level", "hop", "hop", "channel", "ctx", "other", "adv", "adv", "adv"]))
            if k == "name":
                v = draw(namev)
                ops.append(["name", v])
                nb = None if v is None else (len(v["s"].encode("utf-8")) if "s" in v else len(v["b"]) // 2)
                if nb is None or nb + 2 + (3 if show else 0) <= 18 + 2:
                    name_len = nb
            elif k == "show_pa":
                v = draw(st.sampled_from([False, True, False, True, 0, 1, 2, 4]))
                ops.append(["show_pa", v])
                show = bool(v)
            elif k == "pa_level":
                lv = draw(st.sampled_from([-18, -12, -6, 0]))
                ops.append(["pa_level", draw(st.sampled_from([lv, lv, [lv, False], [lv, True], {"t": [lv, False]}]))])
            elif k == "hop":
                ops.append(["hop"])
            elif k == "channel":
                ops.append(["channel", draw(st.sampled_from([2, 26, 80, 2, 26, 80, 37, 76, 0, 126]))])
            elif k == "ctx":
                ops.append(["ctx"])
                name_len, show = None, False
            elif k == "other":
                ops.append(["other", draw(st.sampled_from([76, 76, 2, 26, 80, 125, 0])), draw(st.sampled_from([32, 8, 1, 20, 31]))])
                name_len, show = None, False
            else:
                cap = 18 - (0 if name_len is None else name_len + 2) - (3 if show else 0)
                target = max(0, cap + draw(st.sampled_from([0, 0, -1, 1, -2, 2, -cap, -5])))
                form = draw(st.sampled_from(["single", "list", "tuple", "list_ba"]))
                chunks = []
                if form == "single":
                    n = max(0, target - 2)
                    chunks.append([draw(st.sampled_from([0xFF, 0x16, 0x09, 0x00])), draw(st.binary(min_size=n, max_size=n)).hex()])
                else:
                    left = target
                    while left >= 2 and len(chunks) < 4:
                        n = draw(st.integers(0, left - 2)) if len(chunks) < 3 else left - 2
                        chunks.append([draw(st.sampled_from([0xFF, 0x16, 0x02, 0x19])), draw(st.binary(min_size=n, max_size=n)).hex()])
                        left -= n + 2
                ops.append(["adv", form, chunks, draw(st.sampled_from([1, 1, 1, 2, 3]))])
        return {"mac": mac, "ops": ops}

    return case()


def _enum(names, offsets):
    """name x show_pa_level x pa_level x how the channel was chosen x container form x fill relative to the capacity x
    how often the same container is advertised"""
    def gen():
        import itertools
        for nm, show, pa, tune, form, off, reps in itertools.product(
                names, (False, True, 4), (-18, 0), ("hop", "channel", "ctx", "other"), ("single", "list", "tuple", "list_ba"), offsets, (1, 3)):
            nlen = None if nm is None else len(nm.encode())
            if nlen is not None and nlen + 2 + (3 if show else 0) > 18:
                continue
            cap = 18 - (0 if nlen is None else nlen + 2) - (3 if show else 0)
            target = cap + off
            if target < 2:
                continue
            if form == "single" or target < 5:
                chunks = [[0xFF, bytes(range(0x30, 0x30 + target - 2)).hex()]]
            else:
                a = (target - 4) // 2
                chunks = [[0x16, bytes(range(0x41, 0x41 + a)).hex()], [0xFF, bytes(range(0x61, 0x61 + target - 4 - a)).hex()]]
            pre = {"hop": [["hop"]], "channel": [["channel", 26]], "ctx": [["channel", 80], ["ctx"]],
                   "other": [["channel", 80], ["other", 76, 8]]}[tune]
            # a with-block exit resets name and show_pa_level, so they are configured after it
            ops = pre + [["show_pa", show], ["name", None if nm is None else {"s": nm}], ["pa_level", pa], ["adv", form, chunks, reps]]
            yield {"mac": "c0ffee0102e3", "ops": ops}
    return gen


def parts(tier):
    if tier == "quick":
        return [Part("enum-boundary-fills", "enum", _enum((None, "", "a", "nRF24", "elevenchars"), (-1, 0, 1)), exhaustive=True),
                Part("generated", "gen", _strategy, n=4000)]
    return [Part("enum-boundary-fills", "enum", _enum((None, "", "a", "nRF24", "elevenchars", "fourteen_chars", "sixteen_chars_xx"),
                                                       (-3, -2, -1, 0, 1, 2)), exhaustive=True),
            Part("generated", "gen", _strategy, n=200000)]
