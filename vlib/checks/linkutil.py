"""Shared helpers for the link-level checks (C01, C02, C08, C10, C20)."""
from vlib import boot
from vlib.sim.core import Sim, Mcu
from vlib.sim.radio import Chip, Medium
from vlib.sim.shims import make_spidev_radio, make_bus_radio, SharedSimSpiDev, SimPin


def mk_radio(kind, chip):
    """kind: 'full' (RF24 through the library's SPIDevCtx), 'fullbus' (RF24 through adafruit
    SPIDevice on a busio-style bus), 'lite' (rf24_lite.RF24, always bus)"""
    L = boot.lib()
    if kind == "full":
        return make_spidev_radio(L.RF24, chip)
    if kind == "fullbus":
        return make_bus_radio(L.RF24, chip)
    if kind == "lite":
        return make_bus_radio(L.RF24Lite, chip)
    raise ValueError(kind)


class Link:
    """two chips on one medium, a driver object on each"""

    def __init__(self, tx_kind="full", rx_kind="full", mcu=None, plus=True, warm=None, shared_spi=False):
        self.sim = Sim(mcu=Mcu.from_dict(mcu) if mcu else None)
        self.med = Medium(self.sim)
        self.T = Chip(self.sim, self.med, "T", plus=plus)
        self.R = Chip(self.sim, self.med, "R", plus=plus)
        if warm is not None:
            # both MCUs were reset while the radios kept their supply (another program's configuration, FIFO contents, flags)
            self.T.warm_start(warm)
            self.R.warm_start(warm + 1)
        if shared_spi and tx_kind == "full" and rx_kind == "full":
            # both radios hang on one host: one spidev.SpiDev object, chip selects 0 and 1 (the documented two-radio set-up)
            host = SharedSimSpiDev({(0, 0): self.T, (0, 1): self.R})
            L = boot.lib()
            self.tx = L.RF24(host, 0, SimPin(self.T, "ce"))
            self.rx = L.RF24(host, 1, SimPin(self.R, "ce"))
        else:
            self.tx = mk_radio(tx_kind, self.T)
            self.rx = mk_radio(rx_kind, self.R)
        self.tx_kind, self.rx_kind = tx_kind, rx_kind


class WordFault:
    """per-attempt outcome word for data packets of one sender: D deliver, P lose the packet,
    A deliver the packet but lose its ACK; `default` once the word is used up"""

    def __init__(self, word, default="D", src="T"):
        self.word, self.default, self.src = list(word), default, src
        self.used = []

    def on_tx(self, pkt):
        if pkt.is_ack or pkt.src.name != self.src:
            return
        s = self.word.pop(0) if self.word else self.default
        self.used.append(s)
        if s == "P":
            pkt.drop = True
        elif s == "A":
            pkt.drop_ack = True


def tx_entries(med, n0, src="T"):
    return [e for e in med.log[n0:] if e["src"] == src and not e["ack"]]


def ack_for(med, entry, rx_name="T"):
    """the ACK log entry that completed `entry` at the transmitter, or None"""
    for a in med.log[entry["n"] + 1:]:
        if a["ack"] and a["ack_of"] == entry["n"] and rx_name in a["rx"]:
            return a
    return None


def unhex(h):
    return bytes.fromhex(h)


def with_plus(part):
    """the same part with the chip variant and the chips' state at construction as two more dimensions: every third
    enumerated case and a quarter of the generated ones run on two non-plus nRF24L01 chips (FEATURE / DYNPD locked until the
    ACTIVATE command); every fourth enumerated case and a third of the generated ones start from warm chips (Chip.warm_start).  Only for
    cases of the full driver: rf24_lite is documented as not compatible with the non-plus variant."""
    from vlib.harness.runner import Part
    src = part.source

    def mark(c, nonplus, warm=None):
        if warm is not None and "warm" not in c:
            c = dict(c, warm=warm)
            if warm % 2 and "shared_spi" not in c and c.get("drv", "full") == "full" and c.get("peer", "full") == "full":
                c["shared_spi"] = True
        if not nonplus or "plus" in c or c.get("drv", "full") == "lite" or c.get("peer", "full") == "lite":
            return c
        return dict(c, plus=False)

    if part.kind == "enum":
        def source():
            for i, c in enumerate(src()):
                yield mark(c, i % 3 == 2, i if i % 4 == 1 else None)
    elif part.kind == "gen":
        def source():
            from hypothesis import strategies as st
            return src().flatmap(lambda c: st.tuples(st.sampled_from([False, False, False, True]), st.one_of(st.none(), st.none(), st.integers(0, 1 << 20)))
                                 .map(lambda bw: mark(c, bw[0], bw[1])))
    else:
        return part
    return Part(part.name, part.kind, source, n=part.n, exhaustive=part.exhaustive, weight=part.weight)
