"""C15 - no received frame can crash a node or make it forward garbage.

(1) the validity predicate is compared with the reference on all 65536 16-bit values;
(2) structured frames (all 256 types x length classes x destination/origin classes) and
(3) Hypothesis- and atheris-generated raw payload sequences are put into the RX FIFO of a
single node of every role/level through the simulated air; update() must return normally in
bounded virtual time, and frames shorter than a header or with a reference-invalid origin or
destination must cause neither queue growth nor any transmission."""
import itertools
import os
import struct

from vlib import boot
from vlib.harness.runner import Result, Part, exc_signature
from vlib.harness.steps import StepBudget, StepLimit
from vlib.ref import netaddr
from vlib.sim.core import Sim, Mcu, MS, US, SimHorizon
from vlib.sim.radio import Chip, Medium
from vlib.sim.selftest import Raw
from vlib.sim.shims import SimSpiDev, SimPin

PROPERTY = "C15"
LEVEL = "exploration"
RULE = ("(pred) every 16-bit value through is_address_valid() vs the reference predicate - exhaustive; (frames) a node of role "
        "{routing-only, network, mesh node with an address, unassigned mesh node, mesh master with leases} at level 0..4 receives "
        "1..4 radio payloads of 0..32 bytes on drawn pipes: bounded-exhaustive over 256 types x lengths {0,1,2,3,8,24} (thorough: "
        "0..24) x destination class {self, child, deeper descendant, parent side, 0o100, 0o10, 0o1000, 0o4444, invalid} x origin "
        "class {neighbour, 0o4444, invalid digit, 5 and 6 octal digits} and Hypothesis/atheris raw byte sequences beyond; "
        "non-trivial = a frame of >= 8 bytes whose addresses pass the reference predicate (it gets past the filter); "
        "distinct = SHA-1 of the case JSON")
ASSUMPTIONS = ["the node has no neighbours, so forwards fail; tx_timeout is lowered to 2 ms through its public attribute",
               "a mesh node is placed at an address with NetworkMixin._begin() (no public way without a master)",
               "the per-call time bound is 3 s of virtual time"]
SHRINK_LISTS = ("frames",)
LEVEL_ADDR = [0, 0o3, 0o23, 0o123, 0o4123]


def simplify(case):
    for i, f in enumerate(case.get("frames", [])):
        h = f["hex"]
        if len(h) > 16:
            c = dict(case)
            c["frames"] = [dict(x) for x in case["frames"]]
            c["frames"][i]["hex"] = h[:16] + h[16:][:(len(h) - 16) // 4 * 2]
            yield c


def run_case(case):
    if case["kind"] == "pred":
        return run_pred(case)
    return run_frames(case)


def run_pred(case):
    L = boot.lib()
    res = Result()
    v = case["value"]
    try:
        got = L.structs.is_address_valid(v)
    except Exception as e:  # noqa: BLE001
        res.fail(exc_signature("C15/predicate-raises", e), "is_address_valid(%o)" % v)
        return res
    exp = netaddr.is_valid(v)
    if bool(got) != exp:
        d = netaddr.digits(v)
        shape = "%d-digits" % len(d) if all(1 <= x <= 5 for x in d) else "bad-digit"
        res.fail("C15/predicate-%s-%s" % ("accepts" if got else "rejects", shape), "is_address_valid(0o%o) = %r, reference %r" % (v, got, exp))
    res.nontrivial = exp or all(1 <= x <= 5 for x in netaddr.digits(v))  # valid, or well-formed digits but too long
    return res


ALL_STEPS = False
STEP_LIMIT = 2_000_000  # library lines per group of update() calls; observed maximum on the unchanged tree is in the evidence
LIBDIR = os.path.join(os.path.realpath(boot.REPO), "circuitpython_nrf24l01")


class _NoBudget:
    n = 0

    def __enter__(self):
        return self

    def __exit__(self, *exc):
        return False


def make_node(L, sim, med, role, level, dhcp):
    chip = Chip(sim, med, "N")
    chip.trace_on = False
    spi, csn, ce = SimSpiDev(chip), SimPin(), SimPin(chip, "ce")
    addr = LEVEL_ADDR[level]
    if role == "router":
        node = L.RF24NetworkRoutingOnly(spi, csn, ce, addr)
    elif role == "net":
        node = L.RF24Network(spi, csn, ce, addr)
    elif role == "meshnode":
        node = L.RF24Mesh(spi, csn, ce, 7)
        if addr:
            node._begin(addr)
        else:
            addr = 0o4444
    elif role == "meshfree":
        node = L.RF24MeshNoMaster(spi, csn, ce, 9)
        addr = 0o4444
    elif role == "master":
        node = L.RF24Mesh(spi, csn, ce, 0)
        addr = 0
        for i, a in dhcp:
            node.set_address(i, a)
    else:
        raise ValueError(role)
    node.tx_timeout = 2
    node.route_timeout = 6
    return node, chip, addr


def configure_node(node, case, addr):
    """optional public configuration before the frames arrive: multicast relaying on, fragmentation off, the node moved to
    its address from another one with the public setter (network roles)"""
    if case.get("readdress") is not None and case["role"] in ("router", "net"):
        node.node_address = case["readdress"]
        node.node_address = addr
    if case.get("relay"):
        node.multicast_relay = True
    if case.get("frag_off"):
        node.fragmentation = False


class Neighbours(Chip):
    """stands for every other node in range: takes and acknowledges whatever the node under test transmits, to any address,
    and never answers - so a forwarded frame or a mesh response succeeds at radio level and the node goes on to whatever
    it does after a successful transmission (waiting for a NETWORK_ACK that never comes, for one)"""

    def air_end(self, pkt):
        if self.lock is pkt and not pkt.is_ack and pkt.src.name == "N" and len(pkt.addr) == 5:
            self.areg[0x0B][:5] = pkt.addr
        r = Chip.air_end(self, pkt)
        self.rxf.clear()
        self.flags &= ~0x40
        return r


def run_frames(case):
    L = boot.lib()
    res = Result()
    sim = Sim(horizon_ns=600_000 * MS, mcu=Mcu(spi_base=150 * US, clock=20 * US))
    med = Medium(sim)
    node, chip, addr = make_node(L, sim, med, case["role"], case["level"], case.get("dhcp", []))
    configure_node(node, case, addr)
    if case.get("neigh"):
        Y = Neighbours(sim, med, "Y")
        Y.trace_on = False
        y = Raw(sim, Y)
        for reg, val in ((0, 0x0F), (1, 0x3F), (2, 0x02), (3, 3), (5, 76), (6, 0x07), (0x1D, 0x05), (0x1C, 0x3F)):
            y.w(reg, val)
        y.ce(True)
        res.label("with-neighbours")
    X = Chip(sim, med, "X")
    x = Raw(sim, X)
    x.w(0, 0x0E)
    x.w(1, 0x3F)
    x.w(2, 0x01)
    x.w(3, 3)
    x.w(4, 0x12)
    x.w(5, 76)
    x.w(6, 0x07)
    x.w(0x1D, 0x05)
    x.w(0x1C, 0x3F)
    sim.advance(3 * MS)
    listen = [bytes(chip.pipe_addr(p)) for p in range(6)]
    qlen = lambda: len(node.queue)  # noqa: E731
    frames = case["frames"][:6]
    batch = 3 if case.get("batch") else 1
    groups = [frames[i:i + batch] for i in range(0, len(frames), batch)]
    try:
        for grp in groups:
            valid = True
            data = b""
            for f in grp:
                data = bytes.fromhex(f["hex"])[:32]
                a = listen[f["pipe"] % 6]
                x.ce(False)
                x.w(7, 0x70)
                x.x(0xE1)
                x.w(0x0A, *a)
                x.w(0x10, *a)
                if data:
                    x.x(0xB0 if f["pipe"] % 6 == 0 else 0xA0, *data)
                    x.ce(True)
                    sim.advance(3 * MS)
                    x.ce(False)
                if len(data) < 8:
                    valid = False
                else:
                    frm, to = struct.unpack("<HH", data[:4])
                    valid = valid and netaddr.is_valid(frm) and netaddr.is_valid(to)
            if valid:
                res.nontrivial = True
            if len(grp) > 1 and valid:
                valid = True  # mixed groups are only judged for crashes / time / FIFO drain
            received = bool(chip.rxf) and (len(grp) == 1 or not any(
                len(bytes.fromhex(g["hex"])) >= 8 and netaddr.is_valid(struct.unpack("<H", bytes.fromhex(g["hex"])[:2])[0])
                and netaddr.is_valid(struct.unpack("<H", bytes.fromhex(g["hex"])[2:4])[0]) for g in grp))
            q0, n0, t0 = qlen(), len(med.log), sim.now
            guard = 0
            with StepBudget(STEP_LIMIT, LIBDIR) if case.get("steps", ALL_STEPS) else _NoBudget() as sb:
                while chip.rxf and guard < 8:
                    guard += 1
                    node.update()
                node.update()
            if case.get("steps", ALL_STEPS):
                res.label("steps<1e3" if sb.n < 1000 else "steps<1e4" if sb.n < 10000 else "steps<1e5" if sb.n < 100000 else "steps>=1e5")
            dt = sim.now - t0
            if dt > 3000 * MS:
                res.fail("C15/update-exceeds-time-bound", "%.0f ms of virtual time for one frame (type %s)" % (
                    dt / 1e6, data[6] if len(data) > 6 else None))
            if chip.rxf:
                res.fail("C15/rx-fifo-not-drained", "payload left in the RX FIFO after update()")
                chip.rxf.clear()
            sent = [e for e in med.log[n0:] if e["src"] == "N" and not e["ack"]]
            if received and not valid:
                res.label("filtered")
                if qlen() > q0:
                    res.fail("C15/invalid-frame-queued", "%d-byte frame %s was queued" % (len(data), data[:8].hex()))
                if sent:
                    res.fail("C15/invalid-frame-retransmitted", "%d-byte frame %s caused a transmission to %s" % (
                        len(data), data[:8].hex(), sent[0]["addr"].hex()))
            for e in sent:
                if len(e["pl"]) > 32:
                    res.fail("C15/oversize-packet", "%d bytes on air" % len(e["pl"]))
            while qlen() > 3:
                node.queue.dequeue()
    except SimHorizon:
        res.fail("C15/update-does-not-terminate", "virtual-time horizon reached in update()")
    except StepLimit:
        res.fail("C15/update-does-not-terminate/cpu-loop", "%s at level %d: update() executed more than %d library lines for %s without "
                 "returning" % (case["role"], case["level"], STEP_LIMIT, data[:8].hex()))
    except Exception as e:  # noqa: BLE001 - the property: update() never raises
        res.fail(exc_signature("C15/update-raises", e), "%s at level %d on %r (type %s, %d bytes)" % (
            case["role"], case["level"], e, data[6] if len(data) > 6 else None, len(data)))
    res.label(case["role"], "level%d" % case["level"])
    return res


# ---------------------------------------------------------------------------- case sources
def _pred_all():
    for v in range(65536):
        yield {"kind": "pred", "value": v}


ROLES = [("router", (0, 1, 2, 3, 4)), ("net", (0, 1, 2, 3, 4)), ("meshnode", (0, 1, 2, 3, 4)), ("meshfree", (0,)), ("master", (0,))]
DHCP = [[5, 0o1], [9, 0o2], [200, 0o12], [77, 0o444]]


def dest_classes(addr, level):
    out = {"self": addr, "mc": 0o100, "mc2": 0o10, "mc4": 0o1000, "default": 0o4444, "bad-digit": 0o6, "five-digits": 0o11111,
           "six-digits": 0o111111, "ffff": 0xFFFF}
    if addr != 0o4444 and level < 4:
        out["child"] = addr | (2 << (3 * level))
    if addr != 0o4444 and level < 3:
        out["descendant"] = addr | (2 << (3 * level)) | (5 << (3 * (level + 1)))
    out["parent-side"] = 0o5 if addr != 0o5 else 0o4
    if level:
        out["master"] = 0
    return out


def origin_classes(addr, level):
    out = {"default": 0o4444, "bad-digit": 0o17, "five-digits": 0o12345, "six-digits": 0o123451, "zero": 0}
    if addr != 0o4444 and level < 4:
        out["child"] = addr | (1 << (3 * level))
    out["far"] = 0o5 if addr != 0o5 else 0o4
    return out


def _structured(lengths, types):
    def gen():
        for role, levels in ROLES:
            for level in levels:
                addr = LEVEL_ADDR[level] if role not in ("meshfree",) and not (role == "meshnode" and level == 0) else 0o4444
                if role == "master":
                    addr = 0
                dcs, ocs = dest_classes(addr, level), origin_classes(addr, level)
                for (dn, d), (on, o) in itertools.product(sorted(dcs.items()), sorted(ocs.items())):
                    for n in lengths:
                        # all types for one representative pairing, a type subset for the rest (keeps the size sane)
                        tl = types if (dn in ("self", "child", "mc", "master", "parent-side") and on in ("child", "default", "far")) \
                            else (0, 65, 128, 130, 131, 148, 150, 193, 194, 195, 196, 197, 198, 255)
                        batch = []
                        for t in tl:
                            body = bytes([(t + i) & 0xFF for i in range(n)])
                            hexf = (struct.pack("<HHHBB", o, d, t, t, 7 if t != 195 else 33) + body).hex()
                            batch.append({"pipe": 0 if d == 0o100 else 1 + (t % 5), "hex": hexf})
                            if len(batch) == 3:
                                yield {"kind": "frames", "role": role, "level": level, "dhcp": DHCP, "frames": batch}
                                batch = []
                        if batch:
                            yield {"kind": "frames", "role": role, "level": level, "dhcp": DHCP, "frames": batch}
    return gen


def _master_histories():
    """mesh master with a full or nearly full parent: an address request through that parent, then every kind of
    follow-up frame (valid, invalid origin, invalid destination, short), one at a time and batched"""
    followups = []
    for o, d, t in ((0o6, 0, 0), (0o17, 0, 65), (0o10001, 0, 0), (0xFFFF, 0, 196), (0o1, 0o7, 0), (0o1, 0xFFFF, 195), (0o4444, 0, 195),
                    (0o1, 0, 196), (0o2, 0, 198), (0o1, 0, 197), (0o4444, 0o100, 194), (0o1, 0o100, 196), (0o1, 0o100, 198)):
        followups.append({"pipe": 0 if d == 0o100 else 2, "hex": (struct.pack("<HHHBB", o, d, 9, t, 44) + b"\x05\x00").hex()})
    followups.append({"pipe": 1, "hex": "0102030405"})
    for p in (0, 0o1, 0o23):
        lv = netaddr.level(p)
        full = [[20 + i, p | (i << (3 * lv))] for i in range(1, 6 if p == 0 else 5)]
        for table in (full, full[:-1]):
            for rid in (44, 21):
                req = {"pipe": 3, "hex": struct.pack("<HHHBB", p if p else 0o4444, 0, 5, 195, rid).hex()}
                for f1, f2 in itertools.product(followups, repeat=2):
                    for batch in (False, True):
                        yield {"kind": "frames", "role": "master", "level": 0, "dhcp": table, "batch": batch, "frames": [req, f1, f2]}


def _master_request_sweep():
    """an address request reaching the master from EVERY well-formed origin address (all 780 of levels 1..4 and the
    default address), for a new ID and for an ID that already holds a lease, under a step budget"""
    for a in range(1, 0o10000):
        if not netaddr.is_node_address(a):
            continue
        for rid, table in ((44, []), (77, DHCP), (21, [[20 + i, a | (i << (3 * netaddr.level(a)))] for i in range(1, 5)] if netaddr.level(a) < 4 else DHCP)):
            c = {"kind": "frames", "role": "master", "level": 0, "dhcp": table, "steps": True,
                 "frames": [{"pipe": netaddr.digits(a)[0] if a != 0o4444 else 0, "hex": struct.pack("<HHHBB", a, 0, 5, 195, rid).hex()}]}
            yield c
            if rid == 44:  # and with somebody out there who takes the response at radio level (but sends no NETWORK_ACK)
                yield dict(c, neigh=True)


def _fragment_histories(depth):
    """every sequence of `depth` frames over {FIRST, MORE, LAST, LAST of another id, plain} from one origin, addressed to the
    node itself / to the multicast address / to a child, for every role and level, with multicast relaying on or off and
    fragmentation on or off: completed, repeated, stray and orphaned fragments must never make update() raise"""
    def frame(kind, o, d, n):
        t, r, fid = {"first": (148, 2, 7), "more": (149, 1, 7), "last": (150, 65, 7), "last2": (150, 65, 8), "plain": (65, 0, 9)}[kind]
        return (struct.pack("<HHHBB", o, d, fid, t, r) + bytes([n] * (24 if kind in ("first", "more") else 5))).hex()

    for role, levels in ROLES:
        for level in levels:
            addr = LEVEL_ADDR[level] if role not in ("meshfree",) and not (role == "meshnode" and level == 0) else 0o4444
            if role == "master":
                addr = 0
            dests = {"self": addr, "mc": 0o100}
            if addr != 0o4444 and level < 4:
                dests["child"] = addr | (2 << (3 * level))
            origin = 0o5 if addr != 0o5 else 0o4
            for dn, d in sorted(dests.items()):
                for opts in ({}, {"relay": True}, {"frag_off": True}, {"relay": True, "readdress": 0o111}):
                    if opts.get("relay") and dn != "mc":
                        continue
                    for w in itertools.product(("first", "more", "last", "last2", "plain"), repeat=depth):
                        fr = [{"pipe": 0 if d == 0o100 else 2, "hex": frame(k, origin, d, i)} for i, k in enumerate(w)]
                        yield dict({"kind": "frames", "role": role, "level": level, "dhcp": DHCP, "frames": fr[:3], "steps": True}, **opts)
                        if depth > 3:
                            yield dict({"kind": "frames", "role": role, "level": level, "dhcp": DHCP, "frames": fr, "steps": True}, **opts)


def _short_frames():
    for role, levels in ROLES:
        for level in levels:
            for n in range(0, 8):
                yield {"kind": "frames", "role": role, "level": level, "dhcp": DHCP,
                       "frames": [{"pipe": p, "hex": bytes(range(1, n + 1)).hex()} for p in (0, 1, 5)]}


def _strategy():
    from hypothesis import strategies as st
    addr = st.one_of(st.sampled_from([0, 0o1, 0o2, 0o3, 0o13, 0o23, 0o123, 0o223, 0o4123, 0o5, 0o100, 0o10, 0o1000, 0o4444, 0o6, 0o7,
                                      0o11111, 0o111111, 0o55555, 0xFFFF, 0o12, 0o444]), st.integers(0, 0xFFFF))
    typ = st.one_of(st.integers(0, 255), st.sampled_from([128, 130, 131, 148, 149, 150, 193, 194, 195, 196, 197, 198]))

    @st.composite
    def frame(draw):
        if draw(st.integers(0, 5)) == 0:
            raw = draw(st.binary(max_size=32))
        else:
            raw = struct.pack("<HHHBB", draw(addr), draw(addr), draw(st.integers(0, 0xFFFF)), draw(typ), draw(st.integers(0, 255)))
            raw += draw(st.binary(max_size=24))
            if draw(st.integers(0, 9)) == 0:
                raw = raw[:draw(st.integers(0, 9))]
        return {"pipe": draw(st.integers(0, 5)), "hex": raw.hex()}

    def full_parent(p):
        lv = netaddr.level(p)
        return [[20 + i, p | (i << (3 * lv))] for i in range(1, 6 if p == 0 else 5)]

    dhcp = st.one_of(
        st.lists(st.tuples(st.integers(1, 255), st.sampled_from([0o1, 0o2, 0o5, 0o12, 0o444, 0o4444, 0o3])).map(list), max_size=4),
        st.sampled_from([0, 0o1, 0o23, 0o123]).map(full_parent),
        st.sampled_from([0, 0o1, 0o23]).map(lambda p: full_parent(p)[:-1]))

    @st.composite
    def case(draw):
        role, levels = draw(st.sampled_from(ROLES + [("master", (0,))]))
        c = {"kind": "frames", "role": role, "level": draw(st.sampled_from(levels)), "dhcp": draw(dhcp),
             "batch": draw(st.booleans()), "frames": draw(st.lists(frame(), min_size=1, max_size=6))}
        if draw(st.integers(0, 3)) == 0:
            c["relay"] = True
        if draw(st.integers(0, 5)) == 0:
            c["frag_off"] = True
        if draw(st.integers(0, 4)) == 0:
            c["readdress"] = draw(st.sampled_from([0o1, 0o15, 0o111, 0o1111, 0o4444]))
        if draw(st.integers(0, 2)) == 0:
            c["neigh"] = True
        return c

    return case()


def decode_bytes(data):
    """atheris data provider: raw bytes -> case (role/level selector + 1..4 payloads on drawn pipes)"""
    if len(data) < 3:
        return None
    sel = data[0]
    role, levels = ROLES[sel % len(ROLES)]
    level = levels[(sel >> 3) % len(levels)]
    frames, pos = [], 1
    while pos < len(data) and len(frames) < 4:
        head = data[pos]
        n = head & 0x3F
        n = n if n <= 32 else 32
        pipe = (head >> 6) | ((data[pos + 1] & 1) << 2) if pos + 1 < len(data) else 0
        body = data[pos + 2:pos + 2 + n]
        frames.append({"pipe": pipe % 6, "hex": bytes(body).hex()})
        pos += 2 + n
    if not frames:
        return None
    c = {"kind": "frames", "role": role, "level": level, "dhcp": DHCP, "frames": frames}
    if sel & 0x80:
        c["neigh"] = True
    return c


def seed_inputs():
    """a few valid frames in the data provider's encoding (odd fuzz shards start from these, even ones from nothing)"""
    out = []
    for sel, o, d, t in ((0x00, 0o1, 0o0, 65), (0x01, 0o13, 0o3, 0), (0x04, 0o4444, 0o0, 195), (0x04, 0o1, 0o0, 196),
                         (0x04, 0o2, 0o0, 198), (0x02, 0o4444, 0o100, 194), (0x09, 0o0, 0o223, 148)):
        body = struct.pack("<HHHBB", o, d, 1, t, 5) + b"\x05\x00"
        out.append(bytes([sel, len(body) | 0x40, 0]) + body)
    return out


def _steps(gen):
    """the same cases, run under the step budget (about 2.5 times slower)"""
    def g():
        for c in gen():
            if c.get("kind") == "frames":
                c = dict(c, steps=True)
            yield c
    return g


def _with(gen, **opts):
    def g():
        for c in gen():
            yield dict(c, **opts)
    return g


def _steps_strategy():
    return _strategy().map(lambda c: dict(c, steps=True) if c.get("kind") == "frames" else c)


def parts(tier):
    if tier == "quick":
        return [Part("predicate-all-65536", "enum", _pred_all, exhaustive=True),
                Part("short-frames", "enum", _steps(_short_frames), exhaustive=True),
                Part("master-histories", "enum", _steps(_master_histories), exhaustive=True),
                Part("master-request-from-every-address", "enum", _master_request_sweep, exhaustive=True),
                Part("fragment-histories-depth3", "enum", lambda: _fragment_histories(3), exhaustive=True),
                Part("structured", "enum", _structured((0, 2, 24), range(0, 256)), exhaustive=True),
                Part("structured-with-neighbours", "enum", _with(_steps(_structured((2,), range(0, 256))), neigh=True), exhaustive=True),
                Part("generated", "gen", _steps_strategy, n=3000),
                Part("atheris", "fuzz", lambda: {"decoder": "vlib.checks.c15_robust:decode_bytes", "seconds": 15, "max_len": 140}, n=0)]
    return [Part("predicate-all-65536", "enum", _pred_all, exhaustive=True),
            Part("short-frames", "enum", _steps(_short_frames), exhaustive=True),
            Part("master-histories", "enum", _steps(_master_histories), exhaustive=True),
            Part("master-request-from-every-address", "enum", _master_request_sweep, exhaustive=True),
            Part("fragment-histories-depth4", "enum", lambda: _fragment_histories(4), exhaustive=True),
            Part("structured", "enum", _steps(_structured(tuple(range(0, 25)), range(0, 256))), exhaustive=True),
            Part("structured-with-neighbours", "enum", _with(_steps(_structured((0, 2, 9, 24), range(0, 256))), neigh=True), exhaustive=True),
            Part("master-histories-with-neighbours", "enum", _with(_steps(_master_histories), neigh=True), exhaustive=True),
            Part("generated", "gen", _steps_strategy, n=150000),
            Part("atheris", "fuzz", lambda: {"decoder": "vlib.checks.c15_robust:decode_bytes", "seconds": 600, "max_len": 140}, n=0)]
