"""C11 - header and fragment wire formats are stable and TMRh20-compatible.

Oracles: an independently written struct layout ("<HHHBB") for headers and frames; for
fragments the reference fragmenter vlib.ref.frag.fragment() compared field by field with the
frames captured on the simulated air during one real write(), the reference TMRh20-style
reassembler fed with those frames, the 32-byte packet bound, and the caller's header type
after the call."""
import struct

from vlib import boot
from vlib.harness.runner import Result, Part, exc_signature
from vlib.ref import frag as rfrag
from vlib.sim.core import MS, SimHorizon
from vlib.checks.netutil import Net, air_frames

PROPERTY = "C11"
LEVEL = "exploration"
RULE = ("three case kinds: (hdr) header field values (12-bit addresses incl. reserved ones, 16-bit ids incl. counter "
        "wrap-around, all 256 types and one-character string types, all reserved values) packed, parsed back and compared "
        "with an independent struct layout, and buffers of 0..40 bytes given to unpack(); (frag) one write() of a message of "
        "every length 0..144 (exhaustive over lengths) with drawn content/type/frame id from a node to a direct neighbour, "
        "on-air frames captured; (line) the same through one intermediate node.  non-trivial = message longer than 24 bytes, "
        "or a header with a boundary field value; distinct = SHA-1 of the case JSON")
ASSUMPTIONS = ["loss-free medium; the receiving chip's FIFO is emptied as packets arrive (direct topology) or by the node's own "
               "update() loop (line topology)", "TMRh20 wire compatibility is judged against vlib/ref/frag.py, written from RF24Network.cpp"]
BOUNDARY = {0, 1, 0o100, 0o10, 0o1000, 0o4444, 0o7777, 0xFFF, 0xFFFF, 0xFFFE, 255, 127, 128, 65, 191, 192, 148, 149, 150}


def run_case(case):
    kind = case["kind"]
    if kind == "hdr":
        return run_hdr(case)
    return run_frag(case)


def run_hdr(case):
    L = boot.lib()
    H, F = L.Header, L.Frame
    res = Result()
    frm, to, fid, typ, rsv = case["from"], case["to"], case["id"], case["type"], case["reserved"]
    msg = bytes.fromhex(case["msg"])
    ityp = ord(typ[0]) if isinstance(typ, str) else typ
    if {frm, to, fid, ityp, rsv} & BOUNDARY:
        res.nontrivial = True
    try:
        setattr(H, "_RF24NetworkHeader__next_id", case["counter"])
        h = H(to, typ)
        h2 = H(to, typ)
        if h.frame_id != case["counter"] or h2.frame_id != (case["counter"] + 1) & 0xFFFF:
            res.fail("C11/frame-id-counter", "ids %r, %r from counter %r" % (h.frame_id, h2.frame_id, case["counter"]))
        if h.to_node != to or h.message_type != ityp or h.reserved != 0:
            res.fail("C11/header-constructor", "to %r type %r reserved %r for (%r, %r)" % (h.to_node, h.message_type, h.reserved, to, typ))
        h.from_node, h.frame_id, h.reserved = frm, fid, rsv
        want = struct.pack("<HHHBB", frm, to, fid, ityp, rsv)
        got = h.pack()
        if bytes(got) != want or len(got) != 8 or len(h) != 8:
            res.fail("C11/header-pack", "pack() = %s, expected %s" % (bytes(got).hex(), want.hex()))
        g = H()
        ok = g.unpack(want)
        fields = (g.from_node, g.to_node, g.frame_id, g.message_type, g.reserved)
        if ok is not True or fields != (frm, to, fid, ityp, rsv):
            res.fail("C11/header-unpack", "unpack(%s) -> %r %r" % (want.hex(), ok, fields))
        fr = F(h, msg)
        fp = fr.pack()
        if bytes(fp) != want + msg or len(fr) != 8 + len(msg):
            res.fail("C11/frame-pack", "frame.pack() = %s, expected %s" % (bytes(fp).hex(), (want + msg).hex()))
        f2 = F()
        if f2.unpack(want + msg) is not True or bytes(f2.message) != msg or bytes(f2.header.pack()) != want:
            res.fail("C11/frame-unpack", "frame.unpack() lost data: message %r" % (bytes(f2.message),))
        # a frame object that held another message before (the node's frame buffer is reused for every reception)
        f4 = F(H(0o5, 9), b"previous message")
        if f4.unpack(want + msg) is not True or bytes(f4.message) != msg or bytes(f4.pack()) != want + msg:
            res.fail("C11/frame-unpack-into-used-frame", "unpack(header + %d bytes) into a frame that held 16 bytes: message %r" % (len(msg), bytes(f4.message)))
        # arbitrary buffers
        buf = bytes.fromhex(case["buf"])
        g = H()
        g.from_node, g.to_node, g.frame_id, g.message_type, g.reserved = 1, 2, 3, 4, 5
        ok = g.unpack(buf)
        if len(buf) < 8:
            if ok is not False:
                res.fail("C11/short-buffer-accepted", "header.unpack(%d bytes) returned %r" % (len(buf), ok))
            if F().unpack(buf) is not False:
                res.fail("C11/short-buffer-accepted", "frame.unpack(%d bytes) accepted" % len(buf))
            # refused means refused: the header object still says what it said before
            if (g.from_node, g.to_node, g.frame_id, g.message_type, g.reserved) != (1, 2, 3, 4, 5):
                res.fail("C11/refused-buffer-changed-the-header", "after header.unpack(%d bytes) returned False the header reads %r" % (
                    len(buf), (g.from_node, g.to_node, g.frame_id, g.message_type, g.reserved)))
            f5 = F(H(0o3, 7), b"kept")
            before5 = bytes(f5.pack())
            f5.unpack(buf)
            if bytes(f5.pack()) != before5:
                res.fail("C11/refused-buffer-changed-the-frame", "after frame.unpack(%d bytes) returned False the frame packs to %s, was %s" % (
                    len(buf), bytes(f5.pack()).hex(), before5.hex()))
        else:
            exp = struct.unpack("<HHHBB", buf[:8])
            if ok is not True or (g.from_node, g.to_node, g.frame_id, g.message_type, g.reserved) != exp:
                res.fail("C11/header-unpack", "unpack(%s) -> %r" % (buf[:8].hex(), ok))
            f3 = F()
            if f3.unpack(buf) is not True or bytes(f3.message) != buf[8:]:
                res.fail("C11/frame-unpack", "frame.unpack(%d bytes): message %r" % (len(buf), bytes(f3.message)))
    except Exception as e:  # noqa: BLE001
        res.fail(exc_signature("C11/raises", e), repr(e))
    res.label("hdr")
    return res


class FragmentLoss:
    """the first k on-air attempts of the j-th frame of the judged message are lost (packet, or only its ACK)"""

    def __init__(self, src, frame, k, what):
        self.src, self.frame, self.k, self.what, self.n = str(src), frame, k, what, 0

    def on_tx(self, pkt):
        if pkt.is_ack or pkt.src.name != self.src or bytes(pkt.payload) != self.frame or self.n >= self.k:
            return
        self.n += 1
        if self.what == "P":
            pkt.drop = True
        else:
            pkt.drop_ack = True


def run_frag(case):
    res = Result()
    line = case["kind"] == "line"
    msg = bytes.fromhex(case["msg"])
    typ, fid = case["type"], case["id"]
    src, dst = case["src"], case["dst"]
    net = Net(horizon_ms=20000)
    out = {}

    def main():
        for a in case["nodes"]:
            net.add(a, "net", a)
        if line:
            net.start([a for a in case["nodes"] if a != src])
        else:
            R = net.ctl[dst].chip
            R.rx_waiters.append(lambda: R.rxf.clear())
        net.sim.advance(2 * MS)
        L = net.L
        for op in case.get("pre", ()):
            # configuration history of the sender before the message is written
            if op[0] == "frag":
                net.ctl[src].node.fragmentation = op[1]
            elif op[0] == "maxlen":
                net.ctl[src].node.max_message_length = op[1]
        for bn, bt in case.get("before", ()):
            # earlier messages of the same sender: whatever they leave in the node's buffers must not show in the next frame
            try:
                net.ctl[src].node.send(L.Header(dst, bt), bytes((3 * j + bn) & 0xFF for j in range(bn)))
            except (ValueError, SimHorizon):
                pass
            net.settle(300)
        out["n0"] = len(net.med.log)
        if case.get("loss"):
            j, k, what = case["loss"]
            ref = rfrag.fragment(src, dst, fid, typ, msg)
            net.med.fault = FragmentLoss(src, ref[min(j, len(ref) - 1)], k, what)
        h = L.Header(dst, typ)
        h.frame_id = fid
        if case.get("reserved"):
            h.reserved = case["reserved"]
        app_buf = bytes(msg) if case["bytes"] else bytearray(msg)  # the application's own message object
        frame = L.Frame(h, app_buf)
        if case.get("echo"):
            # history: the message was sent once already, the peer answered, the sender took the answer in with update() and
            # read it; now the application hands the same header and message objects to the library again.  What goes on air
            # must be the frames of ITS message (the library must not have kept a reference that a reception writes through)
            try:
                net.ctl[src].node.write(frame) if case["via_write"] else net.ctl[src].node.send(h, app_buf)
                net.settle(300)
                net.ctl[dst].node.send(L.Header(src, 2), bytes(range(0x41, 0x41 + case["echo"])))
                net.settle(300)
                for _ in range(3):
                    net.ctl[src].node.update()
                while net.ctl[src].node.available():
                    net.ctl[src].node.read()
            except (SimHorizon, ValueError):
                pass
            out["buf_after_echo"] = bytes(app_buf)
            out["n0"] = len(net.med.log)
        try:
            if case.get("multicast"):
                # multicast(): the type may be given as a one-character string; the frames go to the level address
                out["ret"] = net.ctl[src].node.multicast(frame.message, case["mtype"], 1)
            else:
                out["ret"] = net.ctl[src].node.write(frame) if case["via_write"] else net.ctl[src].node.send(h, app_buf)
        except SimHorizon:
            out["ret"] = "horizon"
        except ValueError:
            out["ret"] = "ValueError"
        except Exception as e:  # noqa: BLE001
            out["ret"] = "raised %r" % (e,)
        out["type_after"] = h.message_type
        out["hdr_after"] = (h.from_node, h.to_node, h.frame_id, h.reserved)
        net.settle(500)

    try:
        net.sim.run_main(main)
    except Exception as e:  # noqa: BLE001
        res.fail(exc_signature("C11/raises", e), repr(e))
        return res
    if case.get("echo"):
        res.label("same-objects-sent-again-after-a-reception")
        if out.get("buf_after_echo") != msg:
            res.fail("C11/callers-message-modified", "the application's %d-byte message object holds %r after the node received another frame" % (
                len(msg), out.get("buf_after_echo", b"")[:40]))
    del net.med.log[:out.get("n0", 0)]
    frames = [f for f in air_frames(net.med, src=str(src))]
    got = [f["pl"] for f in frames]
    if case.get("multicast"):
        # a multicast keeps whatever frame id the node's buffer holds: the reference is built with the id seen on air
        res.label("multicast")
        res.nontrivial = len(msg) > 24
        if isinstance(out.get("ret"), str):
            res.fail("C11/multicast-raises", "multicast(%d bytes, type %r) %s after %d frame(s) on air" % (len(msg), case["mtype"], out["ret"], len(got)))
            return res
        fid = rfrag.unpack_header(got[0])[2] if got and len(got[0]) >= 8 else 0
        want = rfrag.fragment(src, 0o100, fid, typ, msg)
        if got != want:
            res.fail("C11/multicast-frames-differ", "multicast(%d bytes, type %r): %d frames on air, reference %d; first difference at frame %d" % (
                len(msg), case["mtype"], len(got), len(want), next((i for i, (a, b) in enumerate(zip(got, want)) if a != b), min(len(got), len(want)))))
        ra = rfrag.Reassembler()
        for g in got:
            if len(g) >= 8:
                ra.feed(g)
        if ra.delivered != [(src, 0o100, fid, typ, msg)]:
            res.fail("C11/tmrh20-reassembly", "a TMRh20-style receiver does not reassemble the multicast")
        return res
    want = rfrag.fragment(src, dst, fid, typ, msg)
    if case.get("reserved") and len(msg) <= 24:
        want = [rfrag.pack_header(src, dst, fid, typ, case["reserved"]) + msg]  # an unfragmented frame is the caller's header + message
    if case.get("before"):
        res.label("after-earlier-messages")
    if len(msg) > 24:
        res.nontrivial = True
    # documented: fragmentation is on by default with max_message_length 144; changing `fragmentation` sets the limit
    # to 144 (on) / 24 (off).  C11 speaks about what a node with fragmentation emits, so a message is judged when
    # fragmentation is on and the message fits the limit in effect; what happens otherwise (ValueError, or a message
    # cut to 24 bytes when fragmentation is off) is outside the statement and only labelled
    frag_on, maxlen = True, 144
    for op in case.get("pre", ()):
        if op[0] == "frag":
            if op[1] != frag_on:
                frag_on, maxlen = op[1], 144 if op[1] else 24
        else:
            maxlen = op[1]
    if case.get("pre"):
        res.label("config-history")
    if len(msg) > maxlen or (len(msg) > 24 and not frag_on):
        res.label("outside-limit-not-judged")
        if any(len(g) > 32 for g in got):
            res.fail("C11/packet-longer-than-32", "on-air packet of %d bytes" % max(len(g) for g in got))
        return res
    if out.get("ret") == "ValueError":
        res.fail("C11/refused-within-limit", "%d-byte message after %r refused (limit in effect %d, fragmentation %s)"
                 % (len(msg), case.get("pre"), maxlen, "on" if frag_on else "off"))
        return res
    if case.get("loss"):
        # with lost attempts write() may give up; what it put on air must then be a prefix of the reference sequence, and
        # a True result means the complete sequence went out
        res.label("first-k-attempts-of-one-fragment-lost")
        distinct = [g for i, g in enumerate(got) if i == 0 or got[i - 1] != g]
        if out.get("ret") is True and distinct != want:
            res.fail("C11/true-result-incomplete-sequence", "write() returned True after %d of %d frames (the first %d attempts of frame %d were lost)" % (
                len(distinct), len(want), case["loss"][1], case["loss"][0]))
        elif distinct != want[:len(distinct)]:
            res.fail("C11/fragment-prefix", "with lost attempts the frames on air differ from the reference sequence")
        if out.get("type_after") != typ:
            res.fail("C11/caller-header-type-not-restored", "header.message_type is %r after sending, was %r" % (out.get("type_after"), typ))
        return res
    if out.get("ret") is not True:
        if not line:
            res.fail("C11/write-failed", "write() to a direct neighbour returned %r on a loss-free link" % (out.get("ret"),))
        else:
            # a routed fragmented message can be abandoned when the router's per-fragment NETWORK_ACK
            # crosses the next fragment (judged by C05, known finding there); C11 only judges the
            # format of what was put on air: it must be a prefix of the reference fragment list
            res.label("line-write-abandoned")
            if got != want[:len(got)]:
                res.fail("C11/fragment-prefix", "abandoned write put frames on air that differ from the reference")
            return res
    if any(len(g) > 32 for g in got):
        res.fail("C11/packet-longer-than-32", "on-air packet of %d bytes" % max(len(g) for g in got))
    if got != want:
        detail = "frame count %d, expected %d" % (len(got), len(want))
        sig = "C11/fragment-count"
        for i, (g, w) in enumerate(zip(got, want)):
            if g != w:
                gh, wh = rfrag.unpack_header(g) if len(g) >= 8 else None, rfrag.unpack_header(w)
                names = ("from", "to", "id", "type", "reserved")
                if gh is None:
                    sig, detail = "C11/fragment-short", "frame %d has %d bytes" % (i, len(g))
                elif gh != wh:
                    k = [n for n, a, b in zip(names, gh, wh) if a != b][0]
                    sig, detail = "C11/fragment-" + k, "frame %d of %d: header %r, expected %r" % (i, len(want), gh, wh)
                else:
                    sig, detail = "C11/fragment-body", "frame %d of %d carries %d bytes, expected %d" % (i, len(want), len(g) - 8, len(w) - 8)
                break
        res.fail(sig, "%d-byte message: %s" % (len(msg), detail))
    ra = rfrag.Reassembler()
    for g in got:
        if len(g) >= 8:
            ra.feed(g)
    if ra.delivered != [(src, dst, fid, typ, msg)]:
        d = ra.delivered
        res.fail("C11/tmrh20-reassembly", "a TMRh20-style receiver reassembles %s" % (
            "nothing" if not d else "type %r, %d bytes (%s)" % (d[0][3], len(d[0][4]), "equal" if d[0][4] == msg else "different")))
    if out.get("type_after") != typ:
        sig = "C11/caller-header-type-not-restored" if not line else "C11/caller-header-type-not-restored/line"
        res.fail(sig, "header.message_type is %r after sending, was %r" % (out.get("type_after"), typ))
    dead = net.dead_tasks()
    if dead:
        res.fail("C11/node-died", repr(dead[0]))
    res.label("line" if line else "direct", "len>24" if len(msg) > 24 else "len<=24")
    return res


def _hdr_strategy():
    from hypothesis import strategies as st
    addr = st.one_of(st.integers(0, 0xFFF), st.sampled_from([0, 1, 0o100, 0o10, 0o1000, 0o4444, 0o7777, 0o5555]))
    fid = st.one_of(st.integers(0, 0xFFFF), st.sampled_from([0, 1, 0xFFFF, 0xFFFE, 0x00FF, 0xFF00]))
    typ = st.one_of(st.integers(0, 255), st.characters(min_codepoint=0, max_codepoint=255))
    return st.fixed_dictionaries({"kind": st.just("hdr"), "from": addr, "to": addr, "id": fid, "type": typ,
                                  "reserved": st.integers(0, 255), "counter": fid,
                                  "msg": st.binary(max_size=30).map(bytes.hex), "buf": st.one_of(st.binary(max_size=40), st.binary(min_size=5, max_size=7)).map(bytes.hex)})


def _frag_cases(line, per_len):
    def gen():
        import random
        rnd = random.Random(1234 + line)
        for n in range(0, 145):
            for k in range(per_len):
                body = bytes(rnd.getrandbits(8) for _ in range(n))
                if k % 3 == 1:
                    body = bytes([0] * n)
                typ = rnd.choice([0, 1, 64, 65, 100, 127]) if k else 84
                if line:
                    src, dst, nodes = rnd.choice([(0o11, 0, [0, 0o1, 0o11]), (0, 0o21, [0, 0o1, 0o21]), (0o2, 0o3, [0, 0o2, 0o3])])
                else:
                    src, dst, nodes = rnd.choice([(0o1, 0, [0, 0o1]), (0, 0o4, [0, 0o4]), (0o15, 0o5, [0o5, 0o15])])
                yield {"kind": "line" if line else "direct", "msg": body.hex(), "type": typ,
                       "id": rnd.choice([0, 1, 0xFFFF, rnd.getrandbits(16)]), "src": src, "dst": dst, "nodes": nodes,
                       "bytes": bool(k % 2), "via_write": bool((k // 2) % 2)}
    return gen


def _history_cases(depth):
    """every history of up to `depth` calls over {fragmentation on/off, max_message_length 72/144} x boundary lengths"""
    def gen():
        import itertools
        ops = [["frag", False], ["frag", True], ["maxlen", 72], ["maxlen", 144]]
        for d in range(1, depth + 1):
            for w in itertools.product(ops, repeat=d):
                for i, n in enumerate((0, 24, 25, 48, 49, 72, 73, 120, 121, 144)):
                    src, dst, nodes = [(0o1, 0, [0, 0o1]), (0, 0o4, [0, 0o4])][(i + d) % 2]
                    yield {"kind": "direct", "msg": bytes((7 * j + n) & 0xFF for j in range(n)).hex(), "type": 65, "id": 300 + n,
                           "src": src, "dst": dst, "nodes": nodes, "bytes": True, "via_write": bool(i % 2), "pre": [list(o) for o in w]}
    return gen


def _after_earlier_messages():
    """the judged write follows 1..2 earlier messages of the same sender (fragmented or not); the caller's reserved byte set or not"""
    for before in ([[60, 84]], [[25, 1]], [[24, 65]], [[144, 127]], [[60, 84], [10, 2]], [[0, 0]]):
        for n in (0, 10, 24, 25, 60):
            for rsv in (0, 7):
                for via_write in (False, True):
                    src, dst, nodes = (0o1, 0, [0, 0o1]) if n % 2 else (0, 0o4, [0, 0o4])
                    yield {"kind": "direct", "msg": bytes((5 * j + n) & 0xFF for j in range(n)).hex(), "type": 66, "id": 500 + n, "src": src, "dst": dst,
                           "nodes": nodes, "bytes": True, "via_write": via_write, "before": before, "reserved": rsv}


def _echo_cases():
    """a message (bytes / bytearray, via write() / send()) sent, an answer of 5 / 24 bytes received and read, the same objects sent again"""
    for n in (1, 10, 24, 30, 60, 144):
        for as_bytes in (False, True):
            for via_write in (False, True):
                for echo in (5, 24):
                    for src, dst, nodes in ((0o1, 0, [0, 0o1]), (0, 0o4, [0, 0o4])):
                        yield {"kind": "direct", "msg": bytes((9 * j + n) & 0xFF for j in range(n)).hex(), "type": 67, "id": 700 + n, "src": src, "dst": dst,
                               "nodes": nodes, "bytes": as_bytes, "via_write": via_write, "echo": echo}


def _multicast_cases():
    """multicast() with the type given as int and as one-character str (ASCII and above 127), at the fragment boundaries"""
    for n in (0, 1, 24, 25, 48, 49, 100, 144):
        for mtype in (66, "B", "\x80", "\xe9", 0, 127):
            typ = mtype if isinstance(mtype, int) else ord(mtype)
            for src, nodes in ((0, [0, 0o1, 0o2]), (0o2, [0, 0o1, 0o2])):
                yield {"kind": "direct", "msg": bytes((13 * i + n) & 0xFF for i in range(n)).hex(), "type": typ, "mtype": mtype, "id": 0, "src": src, "dst": 0o1,
                       "nodes": nodes, "bytes": True, "via_write": False, "multicast": True}


def _loss_cases(step):
    """a direct write of 30 / 60 / 120 bytes; the first k attempts (k swept past the point where the sender gives up) of
    its first, second or last frame are lost, as packets or as ACKs"""
    def gen():
        for n in (30, 60, 120):
            for j in (0, 1, 99):
                for what in ("P", "A"):
                    for k in range(0, 260, step):
                        yield {"kind": "direct", "msg": bytes((11 * i + n) & 0xFF for i in range(n)).hex(), "type": 70, "id": 900 + n, "src": 0o1, "dst": 0,
                               "nodes": [0, 0o1], "bytes": True, "via_write": bool(k % 2), "loss": [j, k, what]}
    return gen


def parts(tier):
    if tier == "quick":
        return [Part("headers", "gen", _hdr_strategy, n=3000),
                Part("fragment-attempts-lost-sweep", "enum", _loss_cases(5), exhaustive=True),
                Part("multicast-int-and-str-types", "enum", _multicast_cases, exhaustive=True),
                Part("same-objects-sent-again-after-a-reception", "enum", _echo_cases, exhaustive=True),
                Part("write-after-earlier-messages", "enum", _after_earlier_messages, exhaustive=True),
                Part("fragments-after-config-history-depth3", "enum", _history_cases(3), exhaustive=True),
                Part("fragments-direct-all-lengths", "enum", _frag_cases(False, 2), exhaustive=True),
                Part("fragments-line-all-lengths", "enum", _frag_cases(True, 1), exhaustive=True)]
    return [Part("headers", "gen", _hdr_strategy, n=200000),
            Part("fragment-attempts-lost-sweep", "enum", _loss_cases(1), exhaustive=True),
            Part("multicast-int-and-str-types", "enum", _multicast_cases, exhaustive=True),
            Part("same-objects-sent-again-after-a-reception", "enum", _echo_cases, exhaustive=True),
            Part("write-after-earlier-messages", "enum", _after_earlier_messages, exhaustive=True),
            Part("fragments-after-config-history-depth5", "enum", _history_cases(5), exhaustive=True),
            Part("fragments-direct-all-lengths", "enum", _frag_cases(False, 40), exhaustive=True),
            Part("fragments-line-all-lengths", "enum", _frag_cases(True, 12), exhaustive=True)]
