"""C03 - setters program the radio with the documented encoding; getters agree.

Oracle: vlib.ref.regs.RegModel (written from the documentation) applied to the same call;
after every step the *entire* register file of the chip must equal the model's, the chip's
illegal/reserved-write log must be empty, the outcome kind (accepted / documented exception)
must match, getters must return the value in effect, and a leave/re-enter of the object's
`with` block must leave every configuration register as the model has it (black-box test
of the driver's cached view).  The same module serves C20 with drv='lite'."""
import itertools

from vlib.harness.runner import Result, Part
from vlib.ref.regs import RegModel, OK, VALUE_ERROR, INDEX_ERROR
from vlib.sim.core import Sim
from vlib.sim.radio import Chip, Medium
from vlib.checks.linkutil import mk_radio

PROPERTY = "C03"
LEVEL = "exploration"
RULE = ("a case = a list of configuration calls of RF24 (every attribute setter in its bool/int/list/tuple forms, the "
        "set_*/get_* per-pipe functions, open/close pipes, open_tx_pipe, interrupt_config, load_ack, power, listen, "
        "carrier wave test, with-block re-entry, and an 'all getters' step) with arguments from the documented domain and "
        "beyond (negative, 0, boundary+-1, huge, pipe -1/6/7, 0- and 6-byte addresses); bounded-exhaustive over all ordered "
        "pairs (quick) / triples (thorough) of a fixed list of boundary calls, Hypothesis lists to length 40 beyond it.  "
        "non-trivial = >=3 calls of which two touch the same register, or at least one out-of-domain argument; "
        "distinct = SHA-1 of the case JSON")
ASSUMPTIONS = ["register map, reset values and reserved bits from the nRF24L01+ product specification (vlib/sim/radio.py)",
               "invalid pa_level may raise ValueError (code and its own test) or select the default (documentation)",
               "carrier-wave calls are modelled for the plus variant only (the non-plus recipe is not documented bit by bit)"]
SHRINK_LISTS = ("ops",)
PREFIX = "C03"

REG_OF_OP = {
    "channel": (5,), "data_rate": (6,), "pa_level": (6,), "crc": (0,), "address_length": (3,), "ard": (4,), "arc": (4,),
    "set_auto_retries": (4,), "auto_ack": (1,), "set_auto_ack": (1,), "dynamic_payloads": (0x1C, 0x1D),
    "set_dynamic_payloads": (0x1C, 0x1D), "payload_length": (0x11,), "set_payload_length": (0x11,), "ack": (1, 0x1C, 0x1D),
    "allow_ask_no_ack": (0x1D,), "interrupt_config": (0,), "power": (0,), "open_rx_pipe": (2, 0x0A), "close_rx_pipe": (2,),
    "open_tx_pipe": (0x0A, 0x10), "listen": (0, 2, 0x0A), "load_ack": (1, 0x1C, 0x1D), "start_carrier_wave": (0, 6),
    "stop_carrier_wave": (0, 6), "ctx": (0,), "getters": (), "getp": (), "print": (), "get": (),
}
LITE_OPS = {"channel", "data_rate", "pa_level", "address_length", "ard", "arc", "dynamic_payloads", "payload_length", "ack",
            "interrupt_config", "power", "open_rx_pipe", "close_rx_pipe", "open_tx_pipe", "listen", "load_ack", "getters", "get"}


def dec(v):
    """decode a JSON argument spec: plain ints/bools pass through; {'t':..,'v':..} for other forms"""
    if isinstance(v, dict):
        t, x = v["t"], v.get("v")
        if t == "tuple":
            return tuple(x)
        if t == "list":
            return list(x)
        if t == "bytes":
            return bytes.fromhex(x)
        if t == "bytearray":
            return bytearray(bytes.fromhex(x))
        if t == "none":
            return None
        if t == "str":
            return str(x)
    return v


def out_of_domain(op):
    name, a = op[0], [dec(x) for x in op[1:]]
    try:
        if name == "channel":
            return not 0 <= a[0] <= 125
        if name == "data_rate":
            return a[0] not in (1, 2, 250)
        if name == "pa_level":
            v = a[0][0] if isinstance(a[0], (list, tuple)) and a[0] else a[0]
            return v not in (-18, -12, -6, 0)
        if name == "crc":
            return not 0 <= a[0] <= 2
        if name == "address_length":
            return not 3 <= a[0] <= 5
        if name == "ard":
            return not 250 <= a[0] <= 4000
        if name == "arc":
            return not 0 <= a[0] <= 15
        if name == "set_auto_retries":
            return not (250 <= a[0] <= 4000 and 0 <= a[1] <= 15)
        if name in ("set_auto_ack", "set_dynamic_payloads", "set_payload_length"):
            if a[1] is not None and not 0 <= a[1] <= 5:
                return True
            return name == "set_payload_length" and not 1 <= a[0] <= 32
        if name in ("auto_ack", "dynamic_payloads"):
            return a[0] is None or isinstance(a[0], str) or (isinstance(a[0], int) and not isinstance(a[0], bool)
                                                               and not 0 <= a[0] <= 0x3F)
        if name == "payload_length":
            return not isinstance(a[0], (int, list, tuple)) or (isinstance(a[0], int) and not 1 <= a[0] <= 32)
        if name == "getp":
            return True
        if name in ("open_rx_pipe",):
            return not 0 <= a[0] <= 5 or not 1 <= len(a[1]) <= 5
        if name == "close_rx_pipe":
            return not 0 <= a[0] <= 5
        if name == "open_tx_pipe":
            return not 1 <= len(a[0]) <= 5
        if name == "load_ack":
            return not 0 <= a[1] <= 5 or not 1 <= len(a[0]) <= 32
    except TypeError:
        return True
    return False


def call_driver(r, lite, name, a):
    if name in ("channel", "data_rate", "pa_level", "crc", "address_length", "ard", "arc", "auto_ack", "dynamic_payloads",
                "payload_length", "ack", "allow_ask_no_ack", "power", "listen"):
        setattr(r, name, a[0])
    elif name == "set_auto_retries":
        r.set_auto_retries(a[0], a[1])
    elif name == "set_auto_ack":
        r.set_auto_ack(a[0], a[1])
    elif name == "set_dynamic_payloads":
        r.set_dynamic_payloads(a[0], a[1]) if a[1] is not None or True else None
    elif name == "set_payload_length":
        r.set_payload_length(a[0], a[1])
    elif name == "interrupt_config":
        r.interrupt_config(a[0], a[1], a[2])
    elif name == "open_rx_pipe":
        r.open_rx_pipe(a[0], a[1])
    elif name == "close_rx_pipe":
        r.close_rx_pipe(a[0])
    elif name == "open_tx_pipe":
        r.open_tx_pipe(a[0])
    elif name == "load_ack":
        return r.load_ack(a[0], a[1])
    elif name == "start_carrier_wave":
        r.start_carrier_wave()
    elif name == "stop_carrier_wave":
        r.stop_carrier_wave()
    elif name == "ctx":
        r.__exit__(None, None, None)
        r.__enter__()
    else:
        raise ValueError("unknown op " + name)
    return None


class _Null:
    def write(self, _s):
        return 0

    def flush(self):
        pass


def print_report(r, args):
    import sys
    keep = sys.stdout
    sys.stdout = _Null()
    try:
        if args[0] == "pipes":
            r.print_pipes()
        else:
            r.print_details(bool(args[1]))
    finally:
        sys.stdout = keep


def read_getters(r, lite):
    g = {}
    names = ["channel", "data_rate", "pa_level", "address_length", "ard", "arc", "dynamic_payloads", "payload_length", "ack",
             "power", "listen"]
    if not lite:
        names += ["is_lna_enabled", "crc", "auto_ack", "allow_ask_no_ack"]
    for n in names:
        g[n] = getattr(r, n)
    if not lite:
        for p in range(6):
            g["get_auto_ack(%d)" % p] = r.get_auto_ack(p)
            g["get_dynamic_payloads(%d)" % p] = r.get_dynamic_payloads(p)
            g["get_payload_length(%d)" % p] = r.get_payload_length(p)
            g["address(%d)" % p] = bytes(r.address(p))
        g["address(-1)"] = bytes(r.address(-1))
        g["get_auto_retries"] = tuple(r.get_auto_retries())
    return g


def diff_regs(chip_regs, model_regs):
    out = []
    for k in sorted(model_regs):
        a, b = chip_regs.get(k), model_regs[k]
        if isinstance(b, (bytes, bytearray)):
            a = bytes(a)
        if a != b:
            out.append((k, a, b))
    return out


def run_case(case, prefix=None):
    P = prefix or PREFIX
    res = Result()
    lite = case.get("drv", "full") == "lite"
    sim = Sim()
    # the lite driver is documented as not compatible with the non-plus variant
    chip = Chip(sim, Medium(sim), "D", plus=bool(case.get("plus", True)) or lite)
    if case.get("warm") is not None:
        # the MCU was reset while the radio kept its supply: the driver is constructed on a chip that still holds another
        # program's configuration, FIFO contents and latched flags
        chip.warm_start(case["warm"])
        res.label("warm-start")
    r = mk_radio(case.get("drv", "full"), chip)
    snap = chip.regfile()
    if not lite:
        d = RegModel.documented_defaults()
        bad = [(k, snap[k], v) for k, v in d.items() if snap[k] != v]
        if bad:
            res.fail(P + "/defaults", "register 0x%02X is 0x%02X after construction, documented default 0x%02X" % bad[0])
    model = RegModel(snap, lite=lite)
    if lite:
        model.ce = False
    tainted = ""
    touched = {}
    ood = False
    for i, op in enumerate(case["ops"]):
        name = op[0]
        if lite and name not in LITE_OPS:
            continue
        if name in ("start_carrier_wave", "stop_carrier_wave") and not chip.plus:
            continue
        args = [dec(x) for x in op[1:]]
        if out_of_domain(op):
            ood = True
        for reg in REG_OF_OP.get(name, ()):
            touched[reg] = touched.get(reg, 0) + 1
        if name == "getp":
            # per-pipe getters with a pipe number outside [0, 5]: documented IndexError
            try:
                v = getattr(r, args[0])(args[1])
                res.fail("%s/%s-accepts-invalid" % (P, args[0]), "%s(%d) returned %r, documented IndexError" % (args[0], args[1], v))
            except IndexError:
                pass
            except Exception as e:  # noqa: BLE001
                res.fail("%s/%s-wrong-exception" % (P, args[0]), "%s(%d) raised %r" % (args[0], args[1], e))
            d = diff_regs(chip.regfile(), model.r)
            if d:
                res.fail("%s/%s-reg%02X" % (P, args[0], d[0][0]), "register 0x%02X %r, expected %r" % d[0])
                break
            continue
        if name == "get":
            # ONE getter on its own (the all-getters step re-reads every shadow, which can heal what a single getter broke)
            if lite and args[0] in ("auto_ack", "crc", "allow_ask_no_ack", "is_lna_enabled"):
                continue
            try:
                v = getattr(r, args[0])
            except Exception as e:  # noqa: BLE001
                res.fail("%s%s/getter-raises-%s" % (P, tainted, type(e).__name__), "%s: %r" % (args[0], e))
                break
            exp1 = model.getters()
            if lite:
                exp1["dynamic_payloads"] = bool(model.r[0x1D] & 4)
                exp1["ack"] = (model.r[0x1D] & 6) == 6 and bool(model.r[0x1C])
                exp1["listen"] = (model.r[0] & 3) == 3
            if v != exp1[args[0]]:
                res.fail("%s%s/getter-%s" % (P, tainted, args[0]), "%s returned %r, value in effect %r" % (args[0], v, exp1[args[0]]))
            d = diff_regs(chip.regfile(), model.r)
            if d:
                res.fail("%s%s/getters-change-reg%02X" % (P, tainted, d[0][0]), "register 0x%02X %r, expected %r" % d[0])
                break
            continue
        if name == "print":
            # print_pipes() / print_details(dump_pipes) re-read the driver's shadow copies from the radio: they are
            # reports, so they must not raise, must leave every register alone, and whatever follows (getters, ctx)
            # must still see the configuration in effect
            try:
                print_report(r, args)
            except Exception as e:  # noqa: BLE001
                res.fail("%s%s/print-raises-%s" % (P, tainted, type(e).__name__), "%s: %r" % (op, e))
                break
            d = diff_regs(chip.regfile(), model.r)
            if d:
                res.fail("%s%s/print-reg%02X" % (P, tainted, d[0][0]), "after %s register 0x%02X is %r, expected %r" % ((op,) + d[0]))
                break
            continue
        if name == "getters":
            try:
                got = read_getters(r, lite)
            except Exception as e:  # noqa: BLE001
                res.fail("%s%s/getter-raises-%s" % (P, tainted, type(e).__name__), repr(e))
                break
            exp = model.getters()
            if lite:
                exp["dynamic_payloads"] = bool(model.r[0x1D] & 4)
                exp["ack"] = (model.r[0x1D] & 6) == 6 and bool(model.r[0x1C])
                exp["listen"] = (model.r[0] & 3) == 3
            for k, v in got.items():
                if v != exp[k] or (isinstance(exp[k], bool) and not isinstance(v, bool)):
                    res.fail("%s%s/getter-%s" % (P, tainted, k.split("(")[0]), "%s returned %r, value in effect %r" % (k, v, exp[k]))
            d = diff_regs(chip.regfile(), model.r)
            if d:
                res.fail("%s%s/getters-change-reg%02X" % (P, tainted, d[0][0]), "register 0x%02X %r, expected %r" % d[0])
                break
            continue
        before = dict(model.r)
        kind = model.apply([name] + args)
        n_ill = len(chip.illegal)
        raised = None
        try:
            call_driver(r, lite, name, args)
        except Exception as e:  # noqa: BLE001 - outcome is compared with the documented kind below
            raised = e
        rname = type(raised).__name__ if raised is not None else None
        if lite and rname == "ValueError" and kind == INDEX_ERROR:
            rname = "IndexError"  # the lite driver documents ValueError for bad pipe numbers
        if kind == OK:
            if raised is not None:
                res.fail("%s%s/%s-raises-%s" % (P, tainted, name, rname), "%r raised %r" % (op, raised))
                break
        elif kind in (VALUE_ERROR, INDEX_ERROR):
            if raised is None:
                res.fail("%s%s/%s-accepts-invalid" % (P, tainted, name), "%r accepted, documented %s" % (op, kind))
                model.r = before
            elif rname != kind:
                res.fail("%s%s/%s-wrong-exception" % (P, tainted, name), "%r raised %s, documented %s" % (op, rname, kind))
            model.r = before
        elif kind == "ValueError-or-default":
            if raised is not None:
                if rname != "ValueError":
                    res.fail("%s%s/%s-wrong-exception" % (P, tainted, name), "%r raised %s" % (op, rname))
                model.r = before
            else:
                model.r = model.alternatives[0]
        elif kind == "oversize-address":
            # undocumented input: any outcome, provided registers and cached view stay consistent
            applied = RegModel(before, lite=lite)
            applied.user_p0, applied.ce = model.user_p0, model.ce
            trunc = [name] + [a[:5] if isinstance(a, (bytes, bytearray)) else a for a in args]
            applied.apply(trunc)
            tainted = "/after-oversize-address"
            if not diff_regs(chip.regfile(), applied.r):
                model.r, model.user_p0 = applied.r, applied.user_p0
            else:
                model.r = before
            if chip.illegal[n_ill:]:
                res.fail(P + "/oversize-address-written", str(chip.illegal[n_ill]))
                del chip.illegal[n_ill:]
        if chip.illegal[n_ill:]:
            res.fail("%s%s/%s-illegal-write" % (P, tainted, name), "%r: %s" % (op, chip.illegal[n_ill][1]))
            del chip.illegal[n_ill:]
        d = diff_regs(chip.regfile(), model.r)
        if d:
            res.fail("%s%s/%s-reg%02X" % (P, tainted, name, d[0][0]), "after %r register 0x%02X is %r, documented %r" % (
                (op,) + d[0][:1] + (_fmt(d[0][1]), _fmt(d[0][2]))))
            break
        if name in ("listen", "start_carrier_wave", "stop_carrier_wave", "ctx") and chip.ce != model.ce:
            res.fail("%s/%s-ce" % (P, name), "CE is %r after %r, expected %r" % (chip.ce, op, model.ce))
    if ood or (len(case["ops"]) >= 3 and any(v >= 2 for v in touched.values())):
        res.nontrivial = True
    res.label("plus" if chip.plus else "nonplus", "ood" if ood else "in-domain")
    return res


def _fmt(v):
    return v.hex() if isinstance(v, (bytes, bytearray)) else ("0x%02X" % v if isinstance(v, int) else repr(v))


# ---------------------------------------------------------------------------- case sources
def B(h):
    return {"t": "bytes", "v": h}


BOUNDARY_OPS = [
    ["channel", 0], ["channel", 125], ["channel", 126], ["channel", -1],
    ["data_rate", 1], ["data_rate", 2], ["data_rate", 250], ["data_rate", 0],
    ["pa_level", -18], ["pa_level", 0], ["pa_level", {"t": "list", "v": [-12, False]}], ["pa_level", {"t": "tuple", "v": [-6, True]}],
    ["pa_level", -7],
    ["crc", 0], ["crc", 1], ["crc", 2], ["crc", 3],
    ["address_length", 3], ["address_length", 5], ["address_length", 2], ["address_length", 6],
    ["ard", 250], ["ard", 4000], ["ard", 249], ["ard", 4250], ["ard", 749],
    ["arc", 0], ["arc", 15], ["arc", 16], ["arc", -1],
    ["set_auto_retries", 1000, 7], ["set_auto_retries", 0, 99],
    ["auto_ack", False], ["auto_ack", True], ["auto_ack", 0x3E], ["auto_ack", 0xC1],
    ["auto_ack", {"t": "list", "v": [0, -1, 1]}], ["auto_ack", {"t": "tuple", "v": [1, 0, 0, 0, 0, 0, 1, 1]}],
    ["set_auto_ack", False, 0], ["set_auto_ack", True, 5], ["set_auto_ack", True, 6], ["set_auto_ack", False, -1],
    ["dynamic_payloads", False], ["dynamic_payloads", True], ["dynamic_payloads", 0x01], ["dynamic_payloads", {"t": "list", "v": [0, 1]}],
    ["set_dynamic_payloads", False, 0], ["set_dynamic_payloads", True, 3], ["set_dynamic_payloads", False, {"t": "none"}],
    ["set_dynamic_payloads", True, 6], ["set_dynamic_payloads", 1, {"t": "none"}], ["set_dynamic_payloads", 0, {"t": "none"}],
    ["set_dynamic_payloads", 1, 4], ["set_auto_ack", 1, {"t": "none"}], ["set_auto_ack", 0, {"t": "none"}], ["set_auto_ack", 1, 2],
    ["payload_length", 1], ["payload_length", 32], ["payload_length", 0], ["payload_length", 33],
    ["payload_length", {"t": "list", "v": [5, 0, 40, -3]}],
    ["set_payload_length", 8, 0], ["set_payload_length", 0, 1], ["set_payload_length", 33, 5], ["set_payload_length", 10, 6],
    ["set_payload_length", 10, -1], ["set_payload_length", 16, {"t": "none"}],
    ["ack", True], ["ack", False], ["allow_ask_no_ack", False], ["allow_ask_no_ack", True],
    ["interrupt_config", True, False, True], ["interrupt_config", False, True, False],
    ["power", True], ["power", False],
    ["open_rx_pipe", 0, B("a1a2a3a4a5")], ["open_rx_pipe", 0, B("b1b2")], ["open_rx_pipe", 1, B("c1c2c3c4c5")],
    ["open_rx_pipe", 1, B("d1")], ["open_rx_pipe", 2, B("e1e2e3")], ["open_rx_pipe", 5, B("f1")],
    ["open_rx_pipe", 3, B("00")], ["open_rx_pipe", 6, B("0102030405")], ["open_rx_pipe", -1, B("0102030405")], ["open_rx_pipe", 1, B("")],
    ["close_rx_pipe", 0], ["close_rx_pipe", 1], ["close_rx_pipe", 6],
    ["open_tx_pipe", B("a1a2a3a4a5")], ["open_tx_pipe", B("7172737475")], ["open_tx_pipe", B("9192")],
    ["listen", True], ["listen", False],
    ["load_ack", B("aa"), 0], ["load_ack", B(""), 1], ["load_ack", B("00" * 33), 1], ["load_ack", B("bb"), 6],
    ["start_carrier_wave"], ["stop_carrier_wave"],
    ["getp", "get_payload_length", -1], ["getp", "get_payload_length", 6], ["getp", "get_auto_ack", 6],
    ["getp", "get_dynamic_payloads", -1],
    ["print", "pipes"], ["print", "details", True],
    ["get", "ack"], ["get", "dynamic_payloads"], ["get", "auto_ack"], ["get", "arc"], ["get", "pa_level"], ["get", "payload_length"],
]
TAIL = [["ctx"], ["getters"], ["ctx"]]


def _enum(k, ops=BOUNDARY_OPS, drv="full"):
    def gen():
        for word in itertools.product(ops, repeat=k):
            yield {"drv": drv, "plus": True, "ops": [list(o) for o in word] + TAIL}
    return gen


FEATURE_OPS = [["ack", True], ["ack", False], ["set_auto_ack", False, 0], ["auto_ack", False], ["auto_ack", 0x3E], ["dynamic_payloads", False],
               ["set_dynamic_payloads", False, 0], ["load_ack", B("aa"), 0], ["load_ack", B("bb"), 1], ["listen", True], ["listen", False]]


def _enum_features(lo, hi, drv="full"):
    """every word of length lo..hi over the calls that share the FEATURE / EN_AA / DYNPD registers (ACK payloads, auto-ack
    and dynamic payloads globally and on pipe 0, load_ack(), role changes): each documents what it switches on 'when necessary'"""
    def gen():
        for k in range(lo, hi + 1):
            for word in itertools.product(FEATURE_OPS, repeat=k):
                yield {"drv": drv, "plus": True, "ops": [list(o) for o in word] + TAIL}
    return gen


def strategy(drv="full"):
    from hypothesis import strategies as st
    lite = drv == "lite"
    anyint = st.one_of(st.integers(-3, 40), st.sampled_from([-1, 0, 1, 2, 3, 5, 6, 15, 16, 31, 32, 33, 63, 64, 125, 126, 127,
                                                             128, 249, 250, 251, 255, 256, 499, 500, 4000, 4001, 65535, -250]))
    pipe = st.one_of(st.integers(0, 5), st.sampled_from([-1, 6, 7]))
    pipe_n = st.one_of(pipe, st.just({"t": "none"}))
    bits = st.one_of(st.booleans(), st.integers(0, 0x3F), st.integers(-2, 300),
                     st.lists(st.integers(-1, 2), max_size=8).map(lambda v: {"t": "list", "v": v}),
                     st.lists(st.booleans(), max_size=7).map(lambda v: {"t": "tuple", "v": v}),
                     st.sampled_from([{"t": "none"}, {"t": "str", "v": "1"}]))
    addr = st.one_of(st.binary(min_size=1, max_size=5), st.binary(min_size=1, max_size=5), st.binary(min_size=5, max_size=5),
                     st.binary(min_size=0, max_size=5 if lite else 6),
                     st.lists(st.sampled_from([0x00, 0xFF, 0x01, 0xE7, 0xC2]), min_size=1, max_size=5).map(bytes)
                     ).map(lambda b: {"t": "bytes", "v": b.hex()})
    pa = st.one_of(st.sampled_from([-18, -12, -6, 0]), st.sampled_from([-18, -12, -6, 0, 6, -1, -24]),
                   st.tuples(st.sampled_from([-18, -12, -6, 0, 3]), st.booleans()).map(lambda t: {"t": "list", "v": list(t)}),
                   st.tuples(st.sampled_from([-18, -12, -6, 0]), st.booleans(), st.integers(0, 9)).map(
                       lambda t: {"t": "tuple", "v": list(t)}))
    plen = st.one_of(anyint, st.lists(st.integers(-2, 40), max_size=8).map(lambda v: {"t": "list", "v": v}),
                     st.just({"t": "none"}))
    boolish = st.one_of(st.booleans(), st.sampled_from([0, 1]))  # `enable` is documented as bool and coerced with bool(): 0/1 are the usual stand-ins
    ops = [
        st.tuples(st.just("channel"), anyint), st.tuples(st.just("data_rate"), st.sampled_from([1, 2, 250, 0, 3, 1000])),
        st.tuples(st.just("pa_level"), pa), st.tuples(st.just("crc"), st.integers(-2, 4)),
        st.tuples(st.just("address_length"), st.integers(0, 7)), st.tuples(st.just("ard"), anyint),
        st.tuples(st.just("arc"), anyint), st.tuples(st.just("set_auto_retries"), anyint, anyint),
        st.tuples(st.just("auto_ack"), bits), st.tuples(st.just("set_auto_ack"), boolish, pipe_n),
        st.tuples(st.just("dynamic_payloads"), bits), st.tuples(st.just("set_dynamic_payloads"), boolish, pipe_n),
        st.tuples(st.just("payload_length"), plen), st.tuples(st.just("set_payload_length"), anyint, pipe_n),
        st.tuples(st.just("ack"), st.booleans()), st.tuples(st.just("allow_ask_no_ack"), st.booleans()),
        st.tuples(st.just("interrupt_config"), st.booleans(), st.booleans(), st.booleans()),
        st.tuples(st.just("power"), st.booleans()), st.tuples(st.just("open_rx_pipe"), pipe, addr),
        st.tuples(st.just("close_rx_pipe"), pipe), st.tuples(st.just("open_tx_pipe"), addr),
        st.tuples(st.just("listen"), st.booleans()),
        st.tuples(st.just("load_ack"), st.binary(max_size=34).map(lambda b: {"t": "bytes", "v": b.hex()}), pipe),
        st.just(("start_carrier_wave",)), st.just(("stop_carrier_wave",)), st.just(("ctx",)), st.just(("getters",)),
        st.sampled_from([("print", "pipes"), ("print", "details", True), ("print", "details", False)]),
        st.tuples(st.just("get"), st.sampled_from(["ack", "dynamic_payloads", "auto_ack", "arc", "ard", "pa_level", "payload_length", "channel",
                                                     "data_rate", "address_length", "crc", "listen", "power"])),
        st.tuples(st.just("getp"), st.sampled_from(["get_payload_length", "get_auto_ack", "get_dynamic_payloads"]),
                  st.sampled_from([-1, 6, 7, -6])),
    ]
    if lite:
        bits_l = st.booleans()
        ops = [o for o in [
            st.tuples(st.just("channel"), anyint), st.tuples(st.just("data_rate"), st.sampled_from([1, 2, 250])),
            st.tuples(st.just("pa_level"), st.sampled_from([-18, -12, -6, 0, -1, 6])),
            st.tuples(st.just("address_length"), st.integers(0, 7)), st.tuples(st.just("ard"), anyint),
            st.tuples(st.just("arc"), anyint), st.tuples(st.just("dynamic_payloads"), bits_l),
            st.tuples(st.just("payload_length"), anyint), st.tuples(st.just("ack"), st.booleans()),
            st.tuples(st.just("interrupt_config"), st.booleans(), st.booleans(), st.booleans()),
            st.tuples(st.just("power"), st.booleans()), st.tuples(st.just("open_rx_pipe"), pipe, addr),
            st.tuples(st.just("close_rx_pipe"), pipe), st.tuples(st.just("open_tx_pipe"), addr),
            st.tuples(st.just("listen"), st.booleans()), st.just(("getters",)),
            st.tuples(st.just("load_ack"), st.binary(max_size=34).map(lambda b: {"t": "bytes", "v": b.hex()}), pipe)]]
    return st.fixed_dictionaries({
        "drv": st.just(drv), "plus": st.sampled_from([True, True, True, False]),
        "warm": st.one_of(st.none(), st.none(), st.integers(0, 1 << 20)),
        "ops": st.lists(st.one_of(*ops).map(list), min_size=1, max_size=40).map(lambda o: o + (TAIL[1:2] if lite else TAIL)),
    })


def parts(tier):
    if tier == "quick":
        return [Part("pairs", "enum", _enum(2), exhaustive=True), Part("feature-calls-depth3-4", "enum", _enum_features(3, 4), exhaustive=True),
                Part("generated", "gen", strategy, n=1500)]
    return [Part("triples", "enum", _enum(3), exhaustive=True), Part("feature-calls-depth3-5", "enum", _enum_features(3, 5), exhaustive=True),
            Part("generated", "gen", strategy, n=40000)]
