"""C12 - the frame queue is a bounded, duplicate-free FIFO of private copies.

Oracle: vlib.ref.queue.RefQueue driven in lock-step (model-based).  Cases are op lists."""
import itertools

from vlib import boot
from vlib.harness.runner import Result, Part, exc_signature
from vlib.ref.queue import RefQueue
from vlib.sim.core import Sim
from vlib.sim.radio import Chip, Medium
from vlib.sim.shims import make_spidev_radio

PROPERTY = "C12"
LEVEL = "exploration"
RULE = ("op lists over {enqueue fresh / exact duplicate / same-key-other-body / shared frame object later mutated, "
        "dequeue, peek, len, max_queue_size:=0..8, fragmentation toggle} for both queue classes; enumerated "
        "exhaustively to the stated depth over a 4-frame universe and Hypothesis-generated beyond it; non-trivial = "
        "a mutation-after-enqueue, duplicate, capacity change or toggle happened before a dequeue that returned a frame; "
        "distinct = SHA-1 of the canonical case JSON")
ASSUMPTIONS = ["FrameQueue is given any message type; FrameQueueFrag only non-fragment types (148-150 are C06's domain)",
               "header.message_type is an int (the constructor converts strings)"]
SHRINK_LISTS = ("ops",)

UNIVERSE = [
    [0o1, 0o0, 7, 65, 0, "aa01"],
    [0o1, 0o0, 7, 65, 9, "bb02ff"],  # same (origin, id, type) as #0, different body
    [0o2, 0o0, 7, 65, 0, "cc"],
    [0o1, 0o0, 8, 0, 255, ""],
    [0o1, 0o100, 7, 65, 0, "dd"],  # same (origin, id, type) as #0, another destination (direct vs multicast copy)
]


def _tuple(fr):
    h = fr.header
    return (h.from_node, h.to_node, h.frame_id, h.message_type, h.reserved, bytes(fr.message))


def _spec(f):
    return (f[0], f[1], f[2], f[3], f[4], bytes.fromhex(f[5]))


def run_case(case):
    L = boot.lib()
    S = L.structs
    res = Result()
    frames = case["frames"]
    frag = bool(case["start_frag"])
    node = None
    if case.get("via_node"):
        sim = Sim()
        chip = Chip(sim, Medium(sim), "n")
        chip.trace_on = False
        node = make_spidev_radio(L.RF24Network, chip, 0)
        node.fragmentation = frag
        q = node.queue
    else:
        q = S.FrameQueueFrag() if frag else S.FrameQueue()
    model = RefQueue(6)
    # a second queue object in the same program (another network on another radio): it reassembles a message of its own,
    # one fragment whenever the queue under test is given fragments, and must end up holding exactly that message
    twin = S.FrameQueueFrag() if case.get("twin") else None
    twin_frames, twin_fed = [], [0]
    if twin is not None:
        from vlib.ref import frag as rfrag0
        twin_body = bytes(range(100, 160))
        twin_frames = rfrag0.fragment(0o3, 0o1, 4242, 9, twin_body)
    shared = [S.RF24NetworkFrame(), S.RF24NetworkFrame()]
    interesting = False
    try:
        for op in case["ops"]:
            kind = op[0]
            if kind == "enq":
                spec = _spec(frames[op[1] % len(frames)])
                if frag and spec[3] in (148, 149, 150):
                    continue
                mode = op[2]
                if mode == 0:
                    fr = S.RF24NetworkFrame(S.RF24NetworkHeader(spec[1], spec[3]), spec[5])
                else:
                    fr = shared[mode - 1]
                    fr.message = bytearray(spec[5])
                    fr.header.to_node, fr.header.message_type = spec[1], spec[3]
                fr.header.from_node, fr.header.frame_id, fr.header.reserved = spec[0], spec[2], spec[4]
                exp = model.enqueue(spec)
                if not exp:
                    interesting = True
                got = q.enqueue(fr)
                if bool(got) != exp or not isinstance(got, bool):
                    res.fail("C12/enqueue-return", "enqueue returned %r, reference %r (len %d, max %d)" % (
                        got, exp, len(model), model.max_size))
                if _tuple(fr) != spec:
                    res.fail("C12/enqueue-mutates-argument", "frame passed to enqueue() was changed")
            elif kind == "enqfrag":
                # a complete fragmented message (FIRST .. LAST) presented to the fragment-aware queue: the reassembled
                # message enters the queue like any other frame (capacity, duplicate key, return value)
                if not frag:
                    continue
                from vlib.ref import frag as rfrag
                spec = _spec(frames[op[1] % len(frames)])
                if spec[3] in (148, 149, 150):
                    continue
                body = (spec[5] + bytes(range(40)))[:30 + (op[1] % 3) * 24]
                exp = model.enqueue((spec[0], spec[1], spec[2], spec[3], spec[3], body))
                got = None
                for raw in rfrag.fragment(spec[0], spec[1], spec[2], spec[3], body):
                    fr = S.RF24NetworkFrame()
                    fr.unpack(raw)
                    got = q.enqueue(fr)
                    if twin is not None and twin_fed[0] < len(twin_frames):
                        tf = S.RF24NetworkFrame()
                        tf.unpack(twin_frames[twin_fed[0]])
                        twin.enqueue(tf)
                        twin_fed[0] += 1
                if bool(got) != exp:
                    res.fail("C12/enqueue-return/reassembled", "last fragment's enqueue returned %r, reference %r (len %d, max %d)" % (
                        got, exp, len(model), model.max_size))
                if not exp:
                    interesting = True
            elif kind == "mut":
                fr = shared[op[1] % 2]
                fr.header.from_node ^= 0o5
                fr.header.to_node ^= 0o3
                fr.header.frame_id = (fr.header.frame_id + 1) & 0xFFFF
                fr.header.message_type = (fr.header.message_type + 1) & 0x7F
                fr.header.reserved ^= 0xFF
                if isinstance(fr.message, bytearray):
                    for i in range(len(fr.message)):
                        fr.message[i] ^= 0xFF
                    fr.message.append(0x55)
                interesting = True
            elif kind == "deq":
                exp = model.dequeue()
                got = q.dequeue()
                if (got is None) != (exp is None) or (got is not None and _tuple(got) != exp):
                    res.fail("C12/dequeue-differs", "dequeue gave %r, reference %r" % (
                        None if got is None else _tuple(got), exp))
                if exp is not None and interesting:
                    res.nontrivial = True
            elif kind == "peek":
                exp = model.peek()
                got = q.peek()
                if (got is None) != (exp is None) or (got is not None and _tuple(got) != exp):
                    res.fail("C12/peek-differs", "peek gave %r, reference %r" % (
                        None if got is None else _tuple(got), exp))
            elif kind == "maxq":
                q.max_queue_size = op[1]
                model.max_size = op[1]
                interesting = True
            elif kind == "toggle":
                frag = not frag
                if node is not None:
                    node.fragmentation = frag
                    q = node.queue
                else:
                    q = S.FrameQueueFrag(q) if frag else S.FrameQueue(q)
                if q.max_queue_size != model.max_size:
                    res.fail("C12/toggle-loses-max-size", "max_queue_size %r after toggle, expected %r" % (
                        q.max_queue_size, model.max_size))
                if isinstance(q, S.FrameQueueFrag) != frag:
                    res.fail("C12/toggle-wrong-class", type(q).__name__)
                interesting = True
            if len(q) != len(model):
                res.fail("C12/length-differs", "len %d, reference %d (max_queue_size %d) after %r" % (
                    len(q), len(model), model.max_size, op))
                break
        # final drain: order, content, each exactly once
        rest = []
        for _ in range(len(q) + 2):
            f = q.dequeue()
            if f is None:
                break
            rest.append(_tuple(f))
        if rest != model.items:
            res.fail("C12/final-drain-differs", "drained %r, reference %r" % (rest, model.items))
        if twin is not None:
            # let the second queue finish its own message, then it must hold exactly that message (or nothing of it yet)
            while twin_fed[0] and twin_fed[0] < len(twin_frames):
                tf = S.RF24NetworkFrame()
                tf.unpack(twin_frames[twin_fed[0]])
                twin.enqueue(tf)
                twin_fed[0] += 1
            held = []
            while len(twin):
                held.append(_tuple(twin.dequeue()))
            want = [(0o3, 0o1, 4242, 9, 9, twin_body)] if twin_fed[0] else []
            if [(h[0], h[1], h[2], h[3], h[5]) for h in held] != [(w[0], w[1], w[2], w[3], w[5]) for w in want]:
                res.fail("C12/second-queue-object-disturbed", "another FrameQueueFrag object in the program, fed its own %d fragments, holds %r" % (
                    twin_fed[0], [(h[0], h[3], len(h[5])) for h in held]))
            res.label("second-queue-object")
        elif rest and interesting:
            res.nontrivial = True
        keys = [(t[0], t[2], t[3]) for t in rest]
        if len(set(keys)) != len(keys):
            res.fail("C12/duplicate-held", "two frames with one (origin, id, type) were queued")
    except Exception as e:  # noqa: BLE001 - the queue API documents no exception
        res.fail(exc_signature("C12/raises", e), repr(e))
    res.label("frag" if case["start_frag"] else "plain", "node" if case.get("via_node") else "direct")
    return res


ALPHA = [["enq", 0, 0], ["enq", 1, 1], ["enq", 2, 2], ["enq", 3, 0], ["mut", 0], ["deq"], ["maxq", 1], ["maxq", 3],
         ["toggle"], ["enqfrag", 0], ["enq", 4, 0]]


def _enum_types():
    """every message type that is not a fragment type, into both queue classes, directly and through a node: stored and given
    back unchanged (the fragment test must select exactly 148, 149 and 150)"""
    for t in range(256):
        if t in (148, 149, 150):
            continue
        for start in (True, False):
            for via in (False, True):
                yield {"start_frag": start, "via_node": via, "frames": [[0o1, 0o0, 7, t, t ^ 0x5A, "a1b2"], [0o2, 0o0, 9, t, 1, ""]],
                       "ops": [["enq", 0, 0], ["enq", 1, 1], ["deq"], ["deq"]], "twin": False}


def _enum(depth):
    def gen():
        for start in (True, False):
            for d in range(1, depth + 1):
                for word in itertools.product(ALPHA, repeat=d):
                    yield {"start_frag": start, "via_node": False, "frames": UNIVERSE, "ops": [list(o) for o in word],
                           "twin": bool(start) and any(o[0] == "enqfrag" for o in word)}
    return gen


def _strategy():
    from hypothesis import strategies as st
    frame = st.tuples(st.sampled_from([0o1, 0o2, 0o15, 0o4444, 0]), st.sampled_from([0, 0o1, 0o100]),
                      st.sampled_from([0, 1, 2, 0xFFFF]), st.sampled_from([0, 1, 65, 127, 128, 131, 144, 147, 151, 152, 156, 193, 255, 148, 150]),
                      st.integers(0, 255), st.binary(max_size=30).map(bytes.hex)).map(list)
    op = st.one_of(
        st.tuples(st.just("enq"), st.integers(0, 5), st.integers(0, 2)).map(list),
        st.tuples(st.just("enq"), st.integers(0, 5), st.integers(0, 2)).map(list),
        st.tuples(st.just("mut"), st.integers(0, 1)).map(list),
        st.tuples(st.just("enqfrag"), st.integers(0, 5)).map(list), st.tuples(st.just("enqfrag"), st.integers(0, 5)).map(list),
        st.just(["deq"]), st.just(["peek"]),
        st.tuples(st.just("maxq"), st.integers(0, 8)).map(list),
        st.just(["toggle"]),
    )
    return st.fixed_dictionaries({
        "start_frag": st.booleans(), "via_node": st.booleans(), "twin": st.booleans(),
        "frames": st.lists(frame, min_size=2, max_size=6),
        "ops": st.lists(op, min_size=1, max_size=40),
    })


def _machine():
    """state-aware generation: the rules step the reference queue, so 'enqueue a duplicate of something that IS queued',
    'dequeue while something is there', 'lower max_queue_size below the CURRENT length' are chosen on purpose"""
    from hypothesis import strategies as st
    from hypothesis.stateful import RuleBasedStateMachine, rule, precondition, initialize

    class QueueHistory(RuleBasedStateMachine):
        STEPS = 40

        def __init__(self):
            super().__init__()
            self.model = RefQueue(6)
            self.frames = []
            self.ops = []
            self.start_frag = True
            self.via_node = False
            self.shared = {}

        @initialize(start=st.booleans(), via=st.booleans())
        def setup(self, start, via):
            self.start_frag, self.via_node = start, via

        def _frame(self, spec):
            if spec not in self.frames:
                self.frames.append(spec)
            return self.frames.index(spec)

        @rule(frm=st.sampled_from([0o1, 0o2, 0o15, 0o4444]), fid=st.integers(0, 5), typ=st.sampled_from([0, 1, 65, 127, 128, 131, 144, 147, 151, 152, 156, 193, 255]),
              rsv=st.integers(0, 255), body=st.binary(max_size=24), mode=st.integers(0, 2))
        def enqueue_fresh(self, frm, fid, typ, rsv, body, mode):
            spec = [frm, 0, fid, typ, rsv, body.hex()]
            self.ops.append(["enq", self._frame(spec), mode])
            self.model.enqueue((frm, 0, fid, typ, rsv, body))
            if mode:
                self.shared[mode] = True

        @precondition(lambda self: len(self.model) > 0)
        @rule(k=st.integers(0, 5), other_body=st.booleans(), mode=st.integers(0, 2), body=st.binary(max_size=8))
        def enqueue_duplicate_of_queued(self, k, other_body, mode, body):
            it = self.model.items[k % len(self.model)]
            spec = [it[0], it[1], it[2], it[3], (it[4] + 1) % 256 if other_body else it[4], (body if other_body else it[5]).hex()]
            self.ops.append(["enq", self._frame(spec), mode])
            self.model.enqueue((spec[0], spec[1], spec[2], spec[3], spec[4], bytes.fromhex(spec[5])))

        @precondition(lambda self: len(self.frames) > 0)
        @rule(k=st.integers(0, 5))
        def enqueue_reassembled(self, k):
            self.ops.append(["enqfrag", k % len(self.frames)])

        @precondition(lambda self: bool(self.shared))
        @rule(k=st.integers(0, 1))
        def mutate_shared_object(self, k):
            self.ops.append(["mut", k])

        @precondition(lambda self: len(self.model) > 0)
        @rule()
        def dequeue(self):
            self.ops.append(["deq"])
            self.model.dequeue()

        @rule()
        def dequeue_any(self):
            self.ops.append(["deq"])
            self.model.dequeue()

        @rule()
        def peek(self):
            self.ops.append(["peek"])

        @precondition(lambda self: len(self.model) > 0)
        @rule(below=st.integers(0, 3))
        def lower_capacity_below_length(self, below):
            n = max(0, len(self.model) - below)
            self.ops.append(["maxq", n])
            self.model.max_size = n

        @rule(n=st.integers(0, 8))
        def set_capacity(self, n):
            self.ops.append(["maxq", n])
            self.model.max_size = n

        @rule()
        def toggle_fragmentation(self):
            self.ops.append(["toggle"])

        def case(self):
            if not self.ops or not self.frames:
                return None
            return {"start_frag": self.start_frag, "via_node": self.via_node, "frames": self.frames, "ops": self.ops, "twin": True}

    return QueueHistory


def parts(tier):
    if tier == "quick":
        return [Part("every-type", "enum", _enum_types, exhaustive=True), Part("enum-depth4", "enum", _enum(4), exhaustive=True), Part("generated", "gen", _strategy, n=3000),
                Part("state-machine", "machine", _machine, n=1600)]
    return [Part("every-type", "enum", _enum_types, exhaustive=True), Part("enum-depth6", "enum", _enum(6), exhaustive=True), Part("generated", "gen", _strategy, n=100000),
            Part("state-machine", "machine", _machine, n=60000)]
