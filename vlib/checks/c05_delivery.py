"""C05 - a network message reaches its destination exactly once, intact, over any tree.

Every node of a drawn parent-closed topology runs `while True: update()` in its own task on
its own simulated radio with its own MCU timing model; messages are written one at a time
inside the source node's task; after each the network is left to become quiescent and ALL
queues are inspected.  The medium is loss-free.  Oracle: the destination's queue holds
exactly one frame with identical bytes, type and origin, every other queue is empty, write()
returned True, every on-air packet is <= 32 bytes."""
from vlib.harness.runner import Result, Part, exc_signature
from vlib.ref import netaddr
from vlib.sim.core import MS, US, SimHorizon
from vlib.checks.netutil import Net

PROPERTY = "C05"
LEVEL = "exploration"
RULE = ("a case = a drawn parent-closed set of 2..12 addresses (depth <= 4), each node RF24Network or routing-only with a drawn "
        "MCU timing model (SPI cost 8..400 us, jitter, poll period), optionally a multicast_level override and an earlier address it was "
        "moved from with the node_address setter, allow_multicast on/off, fragmentation on/off, queues read after every "
        "message or only at the end (then with frame ids colliding between origins), and 1..4 sequential messages "
        "(source, destination among full nodes; length 0..144, 0..24 with fragmentation off, biased to 0/24/25/48/49/144; user "
        "type 0..127; drawn bytes; fresh or explicit frame ids; write() or send()).  non-trivial = a message with >= 2 hops, or "
        "> 24 bytes, or an acknowledged type over >= 2 hops; distinct = SHA-1 of the case JSON")
ASSUMPTIONS = ["loss-free medium, first-locked-wins on overlap; one message in flight at a time (the next starts after quiescence)",
               "schedules are sampled through seeded per-node MCU timing models; the harness owns the clock, so a failure replays exactly"]
SHRINK_LISTS = ("msgs",)


def simplify(case):
    for i, m in enumerate(case["msgs"]):
        if len(m["msg"]) > 2:
            c = dict(case)
            c["msgs"] = [dict(x) for x in case["msgs"]]
            n = len(m["msg"]) // 2
            for cut in (24 * 2, 25 * 2, (n // 2) * 2):
                if cut < len(m["msg"]):
                    c2 = dict(c)
                    c2["msgs"] = [dict(x) for x in c["msgs"]]
                    c2["msgs"][i]["msg"] = m["msg"][:cut]
                    yield c2
    # drop leaf nodes that no message touches
    used = set()
    for m in case["msgs"]:
        used.add(m["src"])
        used.add(m["dst"])
        used.update(netaddr.tree_path(m["src"], m["dst"]))
    for n in case["nodes"]:
        a = n["addr"]
        if a in used or any(netaddr.parent(x["addr"]) == a for x in case["nodes"]):
            continue
        c = dict(case)
        c["nodes"] = [x for x in case["nodes"] if x["addr"] != a]
        yield c
    for i, n in enumerate(case["nodes"]):
        if n.get("mcu"):
            c = dict(case)
            c["nodes"] = [dict(x) for x in case["nodes"]]
            c["nodes"][i]["mcu"] = None
            yield c


def msg_class(m, frag_on):
    hops = len(netaddr.tree_path(m["src"], m["dst"]))
    n = len(m["msg"]) // 2
    c = "direct" if hops == 1 else "routed"
    if n > 24:
        c += "-fragmented"
    elif 64 < m["type"] < 192 and hops > 1:
        c += "-acked"
    return c, hops, n


def terminal_losses(air):
    """transmission episodes (same sender, PID, payload, address) that were never taken by a receiver or never acknowledged"""
    eps = {}
    order = []
    for e in air:
        if e["ack"] or e["noack"]:
            continue
        k = (e["src"], e["pid"], e["pl"], e["addr"])
        if k not in eps:
            eps[k] = [False, False]
            order.append(k)
        if e["rx"]:
            eps[k][0] = True  # taken by a receiver (an ACK heard by the sender alone does not count: ACKs carry only
            #                   address + PID and can be another node's)
        if e["acked"]:
            eps[k][1] = True  # acknowledged at the sender
    # on a loss-free medium every episode is both taken and acknowledged unless the receiver was transmitting, locked
    # on an overlapping packet, or left RX mode inside the 130 us ACK turn-around
    return [k for k in order if not (eps[k][0] and eps[k][1])]


def run_case(case):
    res = Result()
    net = Net(horizon_ms=600_000, id0=case.get("id0", 0))
    frag_on = bool(case.get("frag", True))
    out = []

    def main():
        for n in case["nodes"]:
            c = net.add(n["addr"], n["kind"], n["addr"] if n.get("was") is None else n["was"], mcu=n.get("mcu"))
            if n.get("mc_off"):
                c.node.allow_multicast = False  # takes effect with the next address assignment (documented)
                c.node.node_address = n["addr"]
            if n.get("was") is not None:
                c.node.node_address = n["addr"]  # the node held another address before (public setter)
            if not frag_on:
                c.node.fragmentation = False
            if n.get("mc_level") is not None:
                c.node.multicast_level = n["mc_level"]  # listening for another level's multicasts must not change routing
            if n.get("cycled"):
                c.node.power = False  # the node slept once and was woken again: it is a running node like any other
                c.node.power = True
        net.start()
        net.sim.advance(3 * MS)
        L = net.L
        for m in case["msgs"]:
            msg = bytes.fromhex(m["msg"])
            b = m.get("before")
            if b:
                # history, not judged: some node wrote to an address nobody holds (a write that is allowed to fail) and the
                # network came to rest again; the message that follows is still the only one in flight
                net.call(b["who"], lambda node, b=b: node.write(L.Frame(L.Header(b["dst"], b["type"]), b"zz")), timeout_ms=30000)
                net.settle(4000)
                if not case.get("hold"):
                    net.drain_queues()
            n0 = len(net.med.log)

            def do(node, m=m, msg=msg):
                h = L.Header(m["dst"], m["type"])
                if m.get("id") is not None:
                    h.frame_id = m["id"]
                if m.get("via") == "send":
                    return node.send(h, msg), h.frame_id
                return node.write(L.Frame(h, msg)), h.frame_id

            if m.get("dst_busy_ms"):
                # the destination's application is busy with something else for a while (it does not call update()): its radio
                # fills up and refuses fragments, the sender runs out of automatic retries and falls back on its software ones
                net.post(m["dst"], lambda node, ms=m["dst_busy_ms"]: net.sim.advance(ms * MS))
                net.sim.advance(200 * US)
            box = net.call(m["src"], do, timeout_ms=30000)
            settled = net.settle(4000)
            queues = net.drain_queues() if not case.get("hold") else {}
            out.append({"box": box, "settled": settled, "queues": queues, "air": net.med.log[n0:], "m": m})
            if not box["done"]:
                break
        if case.get("hold"):
            # the applications did not read their queues between the messages: everything is taken out at the end and each
            # message is judged on the frames that carry its origin, type and bytes (frames matching no message count
            # against the first one)
            final = net.drain_queues()
            keys = [(o["m"]["src"], o["m"]["type"], bytes.fromhex(o["m"]["msg"])) for o in out]
            for i, o in enumerate(out):
                o["queues"] = {node: [f for f in fr if (f[0], f[3], f[5]) == keys[i] or (i == 0 and (f[0], f[3], f[5]) not in keys)]
                               for node, fr in final.items()}

    try:
        net.sim.run_main(main)
    except SimHorizon:
        res.fail("C05/does-not-terminate", "virtual-time horizon reached")
    except Exception as e:  # noqa: BLE001
        res.fail(exc_signature("C05/harness-or-node-raises", e), repr(e))
        return res
    for k, exc, where in net.dead_tasks():
        res.fail(exc_signature("C05/node-raises", exc), "node %o died in %s: %r" % (k, where, exc))
    poisoned = False
    for o in out:
        if poisoned:
            res.label("not-judged-after-known-finding")
            break
        m, box = o["m"], o["box"]
        msg = bytes.fromhex(m["msg"])
        cls, hops, n = msg_class(m, frag_on)
        if hops >= 2 or n > 24:
            res.nontrivial = True
        res.label(cls)
        if not box["done"]:
            res.fail("C05/write-does-not-return/" + cls, "write() %o -> %o (%d bytes, type %d) still running after 30 s" % (
                m["src"], m["dst"], n, m["type"]))
            continue
        if "exc" in box:
            res.fail(exc_signature("C05/write-raises", box["exc"]), "%o -> %o: %r" % (m["src"], m["dst"], box["exc"]))
            continue
        ret, fid = box["result"]
        # a transmission episode none of whose attempts was taken by anybody, on a loss-free medium, means the
        # intended receiver was itself transmitting or locked on an overlapping packet: fragments are pushed
        # without awaiting the per-fragment NETWORK_ACK, so they cross / collide with the NETWORK_ACKs and the
        # forwards of earlier fragments (DESIGN 5.3).  Reported under its own signature prefix.
        lost = terminal_losses(o["air"])
        crossing = ""
        if lost and cls.startswith("routed") and n > 24:
            crossing = "pipelined-fragments/"
            poisoned = True
        big = [e for e in o["air"] if len(e["pl"]) > 32]
        if big:
            res.fail("C05/packet-longer-than-32", "%d bytes on air" % len(big[0]["pl"]))
        # conservation (judged even where the known finding applies): a frame that a node's radio took and that is
        # addressed to somebody else must later go on air from that node (forwarded, successfully or not); nothing the
        # library does may silently empty a node's RX FIFO
        air = o["air"]
        for idx, e in enumerate(air):
            if e["ack"] or len(e["pl"]) < 8 or not e["rx"]:
                continue
            to = e["pl"][2] | (e["pl"][3] << 8)
            for rxn in e["rx"]:
                if int(rxn) == to or to == 0o100:
                    continue
                if not any((not f["ack"]) and f["src"] == rxn and f["pl"] == e["pl"] for f in air[idx + 1:]):
                    res.fail("C05/received-frame-not-forwarded/" + cls, "node %o took a frame for %o (type %d, %d bytes) from the air and never "
                             "transmitted it onward" % (int(rxn), to, e["pl"][6], len(e["pl"])))
                    break
        got_dst = o["queues"].get(m["dst"], [])
        good = [f for f in got_dst if f[0] == m["src"] and f[3] == m["type"] and f[5] == msg]
        others = {k: v for k, v in o["queues"].items() if k != m["dst"] and v}
        if not o["settled"]:
            res.label("not-quiescent")
        if len(good) == 0:
            if got_dst:
                f = got_dst[0]
                what = "type" if f[3] != m["type"] else ("origin" if f[0] != m["src"] else "bytes")
                res.fail("C05/delivered-altered-%s/%s" % (what, cls), "%o -> %o: sent type %d %d bytes, queue holds from %o type %d %d bytes" % (
                    m["src"], m["dst"], m["type"], n, f[0], f[3], len(f[5])))
            else:
                res.fail("C05/" + crossing + "not-delivered/" + cls, "%o -> %o (%d hops, %d bytes, type %d): nothing in the destination's queue; "
                         "write() returned %r; %d transmission episodes were heard by nobody" % (m["src"], m["dst"], hops, n, m["type"], ret, len(lost)))
        elif len(good) > 1 or len(got_dst) > 1:
            res.fail("C05/" + crossing + "delivered-more-than-once/" + cls, "%o -> %o: destination queue holds %d frames" % (m["src"], m["dst"], len(got_dst)))
        if others:
            k = sorted(others)[0]
            f = others[k][0]
            role = "sender" if k == m["src"] else ("router" if k in netaddr.tree_path(m["src"], m["dst"]) else "bystander")
            res.fail("C05/%sforeign-queue/%s/%s" % (crossing, role, cls), "%o -> %o: node %o queued a frame from %o type %d (%d bytes)" % (
                m["src"], m["dst"], k, f[0], f[3], len(f[5])))
        if ret is not True and good:
            res.fail("C05/" + crossing + "write-false-but-delivered/" + cls, "%o -> %o delivered, write() returned %r" % (m["src"], m["dst"], ret))
    if any(m.get("before") for m in case["msgs"]):
        res.label("after-a-failed-write-somewhere")
    if any(n.get("cycled") for n in case["nodes"]):
        res.label("power-cycled-nodes")
    res.label("frag-on" if frag_on else "frag-off", "nodes%d" % len(case["nodes"]))
    if case.get("hold"):
        res.label("queues-read-at-the-end")
    if any(n.get("mc_off") for n in case["nodes"]):
        res.label("some-nodes-multicast-off")
    return res


def _strategy():
    from hypothesis import strategies as st

    @st.composite
    def case(draw):
        pop = [0]
        for _ in range(draw(st.integers(1, 11))):
            par = draw(st.sampled_from([p for p in pop if netaddr.level(p) < 4]))
            c = par | (draw(st.integers(1, 5)) << (3 * netaddr.level(par)))
            if c not in pop:
                pop.append(c)
        # prefer deep topologies: extend one chain
        if draw(st.booleans()):
            cur = draw(st.sampled_from(pop))
            while netaddr.level(cur) < 4 and len(pop) < 12 and draw(st.integers(0, 3)):
                cur = cur | (draw(st.integers(1, 5)) << (3 * netaddr.level(cur)))
                if cur not in pop:
                    pop.append(cur)
        frag = draw(st.sampled_from([True, True, True, False]))
        full = draw(st.lists(st.sampled_from(pop), min_size=2, max_size=len(pop), unique=True)) if len(pop) > 2 else list(pop)
        if len(full) < 2:
            full = pop[:2]
        mcu = st.one_of(st.none(), st.fixed_dictionaries({"spi": st.sampled_from([8, 20, 50, 100, 400]), "jit": st.sampled_from([0, 20, 60]),
                                                          "seed": st.integers(0, 9999), "poll": st.sampled_from([100, 500, 1000, 3000]),
                                                          "clk": st.sampled_from([2, 10, 40])}))
        nodes = [{"addr": a, "kind": "net" if a in full else draw(st.sampled_from(["router", "net"])), "mcu": draw(mcu)} for a in sorted(pop)]
        if draw(st.integers(0, 3)) == 0:
            for n in nodes:
                if draw(st.booleans()):
                    n["mc_level"] = draw(st.integers(0, 4))
        if draw(st.integers(0, 3)) == 0:
            for n in nodes:
                if draw(st.booleans()):
                    n["mc_off"] = True
        if draw(st.integers(0, 2)) == 0:
            for n in nodes:
                if draw(st.booleans()):
                    was = draw(st.sampled_from([0, 0o1, 0o3, 0o5, 0o15, 0o21, 0o125, 0o3125, 0o4444, n["addr"]]))
                    n["was"] = was
        if draw(st.integers(0, 3)) == 0:
            for n in nodes:
                if draw(st.booleans()):
                    n["cycled"] = True
        absent = [a for a in netaddr.all_nodes() if a not in pop]
        msgs = []
        for _ in range(draw(st.integers(1, 4))):
            s = draw(st.sampled_from(full))
            d = draw(st.sampled_from([x for x in full if x != s]))
            maxlen = 144 if frag else 24
            n = draw(st.one_of(st.integers(0, maxlen), st.sampled_from([0, 1, 23, 24] + ([25, 47, 48, 49, 72, 120, 143, 144] if frag else []))))
            msgs.append({"src": s, "dst": d, "type": draw(st.one_of(st.integers(0, 127), st.sampled_from([0, 64, 65, 127]))),
                         "msg": draw(st.binary(min_size=n, max_size=n)).hex(),
                         "id": draw(st.one_of(st.none(), st.integers(0, 0xFFFF))), "via": draw(st.sampled_from(["write", "send"]))})
            if draw(st.integers(0, 3)) == 0:
                who = draw(st.sampled_from([s] + netaddr.tree_path(s, d)))
                kids = [a for a in absent if netaddr.parent(a) == who]
                if [n for n in nodes if n["addr"] == who][0]["kind"] == "net":
                    msgs[-1]["before"] = {"who": who, "dst": draw(st.sampled_from(kids)) if kids and draw(st.booleans()) else draw(st.sampled_from(absent)),
                                          "type": draw(st.sampled_from([0, 65, 100]))}
        c = {"nodes": nodes, "frag": frag, "msgs": msgs}
        if len(msgs) >= 2 and draw(st.integers(0, 2)) == 0:
            # unread queues: ids as devices that all count from the same start would produce them (collisions between
            # origins), every (origin, id, type) and every (origin, destination, type, bytes) used once
            c["hold"] = True
            seen, seen2 = set(), set()
            for m in msgs:
                m["id"] = draw(st.sampled_from([7, 8]))
                m["type"] = draw(st.sampled_from([1, 65, 0]))
                while (m["src"], m["id"], m["type"]) in seen or (m["src"], m["type"], m["msg"]) in seen2:
                    m["id"] += 2
                    m["type"] = (m["type"] + 1) % 128
                seen.add((m["src"], m["id"], m["type"]))
                seen2.add((m["src"], m["type"], m["msg"]))
        return c

    return case()


def _enum_unread():
    """fixed small trees; 2..3 messages with the SAME frame id and type from different origins to one destination (direct
    and routed, single-frame and fragmented), the destination's application reading only at the end; and routers with
    allow_multicast off as the last hop of acknowledged types"""
    star = [0, 0o1, 0o2, 0o3, 0o11, 0o21]
    for frag_len in (5, 40):
        for typ in (1, 65):
            for dst, srcs in ((0, (0o1, 0o2, 0o3)), (0o1, (0, 0o11, 0o2)), (0o11, (0o21, 0, 0o1)), (0o2, (0o21, 0o1))):
                nodes = [{"addr": a, "kind": "net", "mcu": None} for a in star]
                msgs = [{"src": sx, "dst": dst, "type": typ, "msg": bytes([0x30 + i] * frag_len).hex(), "id": 7, "via": "write"} for i, sx in enumerate(srcs)]
                yield {"nodes": nodes, "frag": True, "msgs": msgs, "hold": True}
    for off in ([0o1], [0o2], [0o1, 0o2], [0, 0o1, 0o2]):
        for typ in (65, 127, 1):
            nodes = [{"addr": a, "kind": "router" if a in off and a not in (0o11, 0o21) and a != 0 and a != 0o2 else "net", "mcu": None, "mc_off": a in off} for a in star]
            msgs = [{"src": 0, "dst": 0o11, "type": typ, "msg": "aa55", "id": None, "via": "write"},
                    {"src": 0o11, "dst": 0o21, "type": typ, "msg": "bb66", "id": None, "via": "send"},
                    {"src": 0o21, "dst": 0, "type": typ, "msg": "cc77", "id": None, "via": "write"}]
            yield {"nodes": nodes, "frag": True, "msgs": msgs}


def _enum_slow_receiver():
    """direct neighbours, a fast sender and a slow receiver (and the reverse): long fragmented messages fill the receiver's
    3-level RX FIFO faster than its application empties it, so fragments are refused at radio level and re-sent by the
    sender's software retries - nothing is lost by the medium, the message must arrive and write() must say so"""
    fast = {"spi": 8, "jit": 0, "seed": 1, "poll": 100}
    for slow_spi, poll in ((400, 3000), (200, 1000), (100, 3000)):
        slow = {"spi": slow_spi, "jit": 20, "seed": 2, "poll": poll}
        for n in (72, 96, 120, 144):
            for src, dst in ((0, 0o1), (0o1, 0), (0o3, 0o13)):
                pop = sorted({0, src, dst, 0o3} if 0o13 in (src, dst) else {0, src, dst})
                nodes = [{"addr": a, "kind": "net", "mcu": slow if a == dst else fast} for a in pop]
                yield {"nodes": nodes, "frag": True, "msgs": [{"src": src, "dst": dst, "type": 33, "msg": bytes((7 * i + n) & 0xFF for i in range(n)).hex(),
                                                               "id": None, "via": "write"}]}
                for busy in (30, 60, 90):
                    yield {"nodes": nodes, "frag": True, "msgs": [{"src": src, "dst": dst, "type": 33, "msg": bytes((7 * i + n) & 0xFF for i in range(n)).hex(),
                                                                   "id": None, "via": "write", "dst_busy_ms": busy}]}


def parts(tier):
    if tier == "quick":
        return [Part("enum-unread-queues-and-multicast-off-routers", "enum", _enum_unread, exhaustive=True),
                Part("direct-fragmented-to-a-slow-receiver", "enum", _enum_slow_receiver, exhaustive=True), Part("generated", "gen", _strategy, n=480)]
    return [Part("enum-unread-queues-and-multicast-off-routers", "enum", _enum_unread, exhaustive=True),
            Part("direct-fragmented-to-a-slow-receiver", "enum", _enum_slow_receiver, exhaustive=True), Part("generated", "gen", _strategy, n=20000)]
