"""C06 - reassembly never delivers a message that was not sent in full.

Messages are fragmented by the reference fragmenter (vlib.ref.frag), their frames are
presented to the library's FrameQueueFrag in a drawn delivery pattern (each fragment dropped,
once or twice; bounded reordering; interleaving of up to 3 senders whose ids may coincide;
stray fragments; ordinary frames; dequeues at arbitrary points), through three executors:
fresh frame objects, one reused frame object (as the network layer does), and over the air
into a real node's update().  Oracle (invariant over the history): every frame handed to the
application is an ordinary frame that was fed in, or byte-for-byte one complete sent message
with its type and origin, delivered no more often than complete in-order presentations of it
occurred."""
import itertools

from vlib import boot
from vlib.harness.runner import Result, Part, exc_signature
from vlib.ref import frag as rfrag
from vlib.sim.core import MS, US
from vlib.sim.selftest import Raw
from vlib.sim.radio import Chip
from vlib.checks.netutil import Net

PROPERTY = "C06"
LEVEL = "fault_enumeration"
RULE = ("a case = 1..3 senders x 1..2 messages of 2..7 fragments (ids drawn to coincide across senders half of the time) + an "
        "arrival list in which every fragment occurs 0, 1 or 2 times, locally reordered (displacement <= 2), streams "
        "interleaved arbitrarily, with ordinary frames and dequeue points in between; enumerated part: a 2- and a 3-fragment "
        "message plus a second sender's 2-fragment message with the same id, every drop/once/twice word, every interleaving "
        "of the senders, dequeue after every step or only at the end; executors: fresh frame objects / one reused frame "
        "object / over the air into a node.  non-trivial = a dropped middle fragment, a duplicate, two senders with equal id "
        "interleaved, or a stray fragment, AND at least one frame was handed to the application; distinct = SHA-1 of the case")
ASSUMPTIONS = ["message bodies are random so that each 24-byte chunk identifies its message and position",
               "delivering a message once per complete in-order presentation is allowed (a sender that really transmits "
               "everything twice may be delivered twice)"]
SHRINK_LISTS = ("arrivals",)


def _body(seed, n):
    import random
    r = random.Random(seed)
    return bytes(r.getrandbits(8) for _ in range(n))


def build(case):
    """-> list of messages: dict(ident, frames[list of bytes])"""
    msgs = []
    for m in case["msgs"]:
        body = _body(m["seed"], m["len"])
        frames = rfrag.fragment(m["from"], m["to"], m["id"], m["type"], body)
        msgs.append({"ident": (m["from"], m["to"], m["id"], m["type"], body), "frames": frames, "body": body})
    return msgs


def presentations(arrivals, mi, k):
    c = [0] * k
    for a in arrivals:
        if a[0] == "f" and a[1] == mi:
            j = a[2]
            if j == 0:
                c[0] += 1
            elif c[j - 1] > 0:
                c[j - 1] -= 1
                c[j] += 1
    return c[k - 1]


def classify(delivered, msgs):
    """shape of a delivered frame that matches no sent message"""
    frm, to, fid, typ, body = delivered
    chunks = []
    for mi, m in enumerate(msgs):
        for j, f in enumerate(m["frames"]):
            chunks.append((mi, j, f[8:]))
    seq, pos = [], 0
    while pos < len(body):
        hit = None
        for mi, j, ch in sorted(chunks, key=lambda c: -len(c[2])):
            if ch and body.startswith(ch, pos):
                hit = (mi, j, len(ch))
                break
        if hit is None:
            return "unrecognisable-bytes"
        seq.append(hit[:2])
        pos += hit[2]
    ms = {mi for mi, _ in seq}
    if len(ms) > 1:
        froms = {msgs[mi]["ident"][0] for mi in ms}
        return "cross-sender-splice" if len(froms) > 1 else "cross-message-splice"
    if len(ms) == 1:
        mi = next(iter(ms))
        js = [j for _, j in seq]
        k = len(msgs[mi]["frames"])
        if len(set(js)) < len(js):
            return "repeated-fragment-spliced"
        if js != list(range(k)):
            return "incomplete-message-delivered" if sorted(js) == js else "out-of-sequence-spliced"
        if (frm, typ) != (msgs[mi]["ident"][0], msgs[mi]["ident"][3]):
            return "wrong-type-or-origin"
    return "wrong-type-or-origin"


def run_case(case):
    L = boot.lib()
    S = L.structs
    res = Result()
    msgs = build(case)
    # identical messages (possible after shrinking) are one message: canonicalise their index
    canon = {}
    for mi, m in enumerate(msgs):
        canon[mi] = next(k for k in range(mi + 1) if msgs[k]["ident"] == m["ident"])
    case = dict(case, arrivals=[[a[0], canon[a[1]]] + list(a[2:]) if a[0] == "f" else a for a in case["arrivals"]])
    per_sender = {}
    for m in case["msgs"]:
        # (a multicast reuses the frame id of the preceding direct message: same origin and id with ANOTHER destination is
        # something the library itself produces; same origin, id AND destination for two messages is outside the protocol)
        per_sender.setdefault((m["from"], m["id"], m["to"]), set()).add((m["type"], m["len"], m["seed"]))
    # one origin using one frame id for two different messages to one destination: two consecutive multicast() calls do
    # that (the call does not draw a new id).  A receiver cannot tell such fragments apart, so it can only be judged
    # when no receiver could be fooled: the messages of such a group arrive one after the other (not interleaved) and
    # each later one starts with its FIRST fragment, which restarts any reassembly
    same_key = {}
    for mi, m in enumerate(case["msgs"]):
        same_key.setdefault((m["from"], m["id"], m["to"]), []).append(canon[mi])
    for group in same_key.values():
        group = sorted(set(group))
        if len(group) < 2:
            continue
        seq = [a[1] for a in case["arrivals"] if a[0] == "f" and a[1] in group]
        order = [g for i, g in enumerate(seq) if i == 0 or seq[i - 1] != g]
        headless = any(next((a[2] for a in case["arrivals"] if a[0] == "f" and a[1] == g), 0) != 0 for g in order[1:])
        if len(order) != len(set(order)) or headless:
            res.inconclusive = "messages with one origin, id and destination arrive interleaved or without their first fragment (no receiver can tell them apart)"
            return res
        res.label("same-key-messages-in-sequence")
    plains = [rfrag.pack_header(p["from"], p["to"], p["id"], p["type"], 0) + _body(p["seed"], p["len"]) for p in case.get("plains", [])]
    mode = case["mode"]
    arrivals = case["arrivals"]
    got = []
    net = None
    try:
        if mode == "air":
            net = Net(horizon_ms=60000)
            node_holder = {}

            def main():
                c = net.add(0, "net", 0)
                node_holder["c"] = c
                X = Chip(net.sim, net.med, "X")
                x = Raw(net.sim, X)
                from vlib.ref import netaddr
                addr = netaddr.pipe_address(0, 1)
                x.w(0, 0x0E)
                x.w(1, 0x3F)
                x.w(2, 0x01)
                x.w(3, 3)
                x.w(4, 0x15)
                x.w(5, 76)
                x.w(6, 0x07)
                x.w(0x1D, 0x04)
                x.w(0x1C, 0x3F)
                x.w(0x0A, *addr)
                x.w(0x10, *addr)
                net.sim.advance(3 * MS)
                node = c.node
                for a in arrivals:
                    if a[0] == "deq":
                        f = node.read()
                        if f is not None:
                            got.append(_t(f))
                        continue
                    data = msgs[a[1]]["frames"][a[2]] if a[0] == "f" else plains[a[1] % len(plains)] if plains else None
                    if data is None:
                        continue
                    x.w(7, 0x70)
                    x.x(0xE1)
                    x.x(0xA0, *data)
                    x.ce(True)
                    net.sim.advance(4 * MS)
                    x.ce(False)
                    node.update()
                while node.available():
                    got.append(_t(node.read()))

            net.sim.run_main(main)
        else:
            q = S.FrameQueueFrag()
            shared = S.RF24NetworkFrame()
            for a in arrivals:
                if a[0] == "deq":
                    f = q.dequeue()
                    if f is not None:
                        got.append(_t(f))
                    continue
                data = msgs[a[1]]["frames"][a[2]] if a[0] == "f" else (plains[a[1] % len(plains)] if plains else None)
                if data is None:
                    continue
                fr = shared if mode == "reuse" else S.RF24NetworkFrame()
                fr.unpack(bytearray(data) if a[-1] == "ba" else bytes(data))
                q.enqueue(fr)
            for _ in range(20):
                f = q.dequeue()
                if f is None:
                    break
                got.append(_t(f))
    except Exception as e:  # noqa: BLE001
        res.fail(exc_signature("C06/raises", e), repr(e))
        return res
    # ---- oracle
    fed_plain = {}
    for a in arrivals:
        if a[0] == "p" and plains:
            d = plains[a[1] % len(plains)]
            k = rfrag.unpack_header(d)[:4] + (d[8:],)
            fed_plain[k] = fed_plain.get(k, 0) + 1
    allowed = dict(fed_plain)
    by_ident = {}
    for mi, m in enumerate(msgs):
        n = presentations(arrivals, mi, len(m["frames"]))
        by_ident[m["ident"]] = by_ident.get(m["ident"], 0) + n
    for k, n in by_ident.items():
        allowed[k] = allowed.get(k, 0) + n
    count = {}
    for d in got:
        count[d] = count.get(d, 0) + 1
    for d, n in count.items():
        if d not in allowed:
            res.fail("C06/" + classify(d, msgs), "application got from %o id %d type %d, %d bytes, which no node sent "
                     "(sent lengths: %s)" % (d[0], d[2], d[3], len(d[4]), [len(m["body"]) for m in msgs]))
        elif n > allowed[d]:
            res.fail("C06/delivered-more-often-than-sent", "message from %o id %d delivered %d times, complete presentations: %d" % (
                d[0], d[2], n, allowed[d]))
    # ---- labels / non-triviality
    seen = {}
    for a in arrivals:
        if a[0] == "f":
            seen[(a[1], a[2])] = seen.get((a[1], a[2]), 0) + 1
    dropped_mid = any(seen.get((mi, j), 0) == 0 for mi, m in enumerate(msgs) for j in range(1, len(m["frames"]) - 1))
    dup = any(v > 1 for v in seen.values())
    stray = any(seen.get((mi, 0), 0) == 0 and any(seen.get((mi, j), 0) for j in range(1, len(m["frames"])))
                for mi, m in enumerate(msgs))
    ids = {}
    for m in case["msgs"]:
        ids.setdefault(m["id"], set()).add(m["from"])
    same_id = any(len(v) > 1 for v in ids.values())
    for name, flag in (("dropped-middle", dropped_mid), ("duplicate", dup), ("stray", stray), ("equal-ids", same_id)):
        if flag:
            res.label(name)
    if got:
        res.label("delivered-something")
    if got and (dropped_mid or dup or stray or same_id):
        res.nontrivial = True
    res.label(mode)
    return res


def _t(f):
    h = f.header
    return (h.from_node, h.to_node, h.frame_id, h.message_type, bytes(f.message))


# ---------------------------------------------------------------------------- case sources
def _enum(full):
    def gen():
        base = [{"from": 0o1, "to": 0, "id": 7, "type": 65, "len": 30, "seed": 1},   # 2 fragments
                {"from": 0o1, "to": 0, "id": 8, "type": 2, "len": 60, "seed": 2},    # 3 fragments
                {"from": 0o2, "to": 0, "id": 7, "type": 1, "len": 40, "seed": 3}]    # 2 fragments, same id as #0
        frags = [(0, 0), (0, 1), (1, 0), (1, 1), (1, 2), (2, 0), (2, 1)]
        modes = ("fresh", "reuse")
        # A: one message alone, every drop/once/twice word, both fragment orders for the 2-fragment one
        for mi, k in ((0, 2), (1, 3)):
            for word in itertools.product((0, 1, 2), repeat=k):
                seq = []
                for j, n in enumerate(word):
                    seq += [["f", mi, j, "b"]] * n
                for perm in set(itertools.permutations(range(len(seq)))) if len(seq) <= 5 else [tuple(range(len(seq)))]:
                    arr = [seq[i] for i in perm]
                    for deq_each in (False, True):
                        a2 = []
                        for a in arr:
                            a2.append(a)
                            if deq_each:
                                a2.append(["deq"])
                        for mode in modes:
                            yield {"mode": mode, "msgs": base, "plains": [], "arrivals": a2}
        # B: two senders with the same id, every interleaving of their (possibly lossy / duplicated) streams
        for w0 in itertools.product((0, 1, 2), repeat=2):
            for w2 in itertools.product((0, 1, 2), repeat=2):
                s0 = [["f", 0, j, "b"] for j, n in enumerate(w0) for _ in range(n)]
                s2 = [["f", 2, j, "b"] for j, n in enumerate(w2) for _ in range(n)]
                n0, n2 = len(s0), len(s2)
                for pos in itertools.combinations(range(n0 + n2), n0):
                    arr, i0, i2 = [], 0, 0
                    for p in range(n0 + n2):
                        if p in pos:
                            arr.append(s0[i0])
                            i0 += 1
                        else:
                            arr.append(s2[i2])
                            i2 += 1
                    for deq_each in ((False, True) if full else (False,)):
                        a2 = []
                        for a in arr:
                            a2.append(a)
                            if deq_each:
                                a2.append(["deq"])
                        yield {"mode": "reuse" if (n0 + n2) % 2 else "fresh", "msgs": base, "plains": [], "arrivals": a2}
        # C: one origin, one frame id, a direct and a multicast message (the library reuses the id for a multicast)
        duo = [{"from": 0o1, "to": 0, "id": 9, "type": 65, "len": 30, "seed": 4}, {"from": 0o1, "to": 0o100, "id": 9, "type": 1, "len": 40, "seed": 5}]
        for w0 in itertools.product((0, 1), repeat=2):
            for w1 in itertools.product((0, 1), repeat=2):
                s0 = [["f", 0, j, "b"] for j, n in enumerate(w0) for _ in range(n)]
                s1 = [["f", 1, j, "b"] for j, n in enumerate(w1) for _ in range(n)]
                for order in (s0 + s1, s1 + s0):
                    for mode in modes:
                        yield {"mode": mode, "msgs": duo, "plains": [], "arrivals": order}
        # D: the message completes while the queue refuses it (full, or the same message still queued), the application
        # dequeues, then fragments are repeated
        six = [{"from": 0o3, "to": 0, "id": 100 + i, "type": 0, "len": 2, "seed": 50 + i} for i in range(6)]
        for typ in (1, 2, 3, 65):
            for nfrag_len in (30, 60):
                one = [{"from": 0o1, "to": 0, "id": 7, "type": typ, "len": nfrag_len, "seed": 9}]
                k = (nfrag_len + 23) // 24
                stream = [["f", 0, j, "b"] for j in range(k)]
                for tail in ([["f", 0, k - 1, "b"]], [["f", 0, k - 2, "b"], ["f", 0, k - 1, "b"]], stream):
                    yield {"mode": "fresh", "msgs": one, "plains": six, "arrivals": [["p", i] for i in range(6)] + stream + [["deq"]] * 7 + tail}
                    yield {"mode": "reuse", "msgs": one, "plains": [], "arrivals": stream + stream + [["deq"]] * 2 + tail}
        # E: two DIFFERENT messages of one origin with the same frame id and destination, one after the other (what two
        # consecutive multicast() calls put on air), every loss/duplication word for each, 3+3, 2+3 and 3+2 fragments
        for to in (0o100, 0):
            for l1, l2 in ((60, 50), (30, 60), (60, 30)):
                pair = [{"from": 0o1, "to": to, "id": 11, "type": 1, "len": l1, "seed": 6}, {"from": 0o1, "to": to, "id": 11, "type": 2, "len": l2, "seed": 7}]
                k1, k2 = (l1 + 23) // 24, (l2 + 23) // 24
                for w1 in itertools.product((0, 1, 2) if full else (0, 1), repeat=k1):
                    for w2 in itertools.product((0, 1, 2) if full else (0, 1), repeat=k2):
                        arr = [["f", 0, j, "b"] for j, n in enumerate(w1) for _ in range(n)] + [["f", 1, j, "b"] for j, n in enumerate(w2) for _ in range(n)]
                        for mode in modes:
                            yield {"mode": mode, "msgs": pair, "plains": [], "arrivals": arr}
                            yield {"mode": mode, "msgs": pair, "plains": [], "arrivals": [x for a in arr for x in (a, ["deq"])]}
    return gen


def _strategy(modes):
    from hypothesis import strategies as st

    @st.composite
    def case(draw):
        nsend = draw(st.integers(1, 3))
        senders = draw(st.lists(st.sampled_from([0o1, 0o2, 0o3, 0o11, 0o25, 0o314]), min_size=nsend, max_size=nsend, unique=True))
        shared_id = draw(st.integers(0, 0xFFFF))
        msgs = []
        for s in senders:
            used = set()
            for _ in range(draw(st.integers(1, 2))):
                nfrag = draw(st.integers(2, 7))
                ln = draw(st.integers((nfrag - 1) * 24 + 1, min(nfrag * 24, 144 if nfrag < 7 else 168)))
                fid = shared_id if draw(st.booleans()) else draw(st.integers(0, 0xFFFF))
                to = draw(st.sampled_from([0, 0, 0o100]))
                while (fid, to) in used and draw(st.integers(0, 3)):  # mostly a fresh id per destination; sometimes reused (multicasts do)
                    fid = (fid + 1) & 0xFFFF
                used.add((fid, to))
                msgs.append({"from": s, "to": to, "id": fid,
                             "type": draw(st.sampled_from([0, 1, 2, 3, 65, 84, 127, 130, 131])), "len": ln,
                             "seed": draw(st.integers(0, 10**6))})
        streams = []
        for mi, m in enumerate(msgs):
            k = (m["len"] + 23) // 24
            s = []
            whole = draw(st.sampled_from([1, 1, 1, 2, 3]))  # the sender may transmit the complete message more than once
            for _rep in range(whole):
                for j in range(k):
                    n = draw(st.sampled_from([1, 1, 1, 1, 0, 2, 3] if j == k - 1 else [1, 1, 1, 1, 0, 2]))
                    s += [["f", mi, j, draw(st.sampled_from(["b", "ba"]))]] * n
            # bounded local reordering
            i = 0
            while i + 1 < len(s):
                if draw(st.integers(0, 5)) == 0:
                    d = draw(st.integers(1, 2))
                    jx = min(len(s) - 1, i + d)
                    s[i], s[jx] = s[jx], s[i]
                i += 1
            streams.append(s)
        nplain = draw(st.sampled_from([0, 1, 2, 2, 6, 7]))  # 6+ ordinary frames can fill the queue (max_queue_size 6)
        plains = [{"from": draw(st.sampled_from(senders)), "to": 0, "id": (shared_id + 1000 + _i) & 0xFFFF if draw(st.booleans()) else draw(st.integers(0, 0xFFFF)),
                   "type": draw(st.sampled_from([0, 1, 65, 84])), "len": draw(st.integers(0, 24)), "seed": draw(st.integers(0, 999))}
                  for _i in range(nplain)]
        if nplain:
            if nplain >= 6 and draw(st.booleans()):
                streams.insert(0, [["p", i] for i in range(nplain)])  # queued before anything else arrives
            else:
                streams.append([["p", i] for i in range(nplain) for _ in range(draw(st.integers(1, 2)))])
        streams.append([["deq"]] * draw(st.integers(0, 4)))
        arr = []
        idx = [0] * len(streams)
        if nplain >= 6 and streams and streams[0] and streams[0][0][0] == "p":
            arr = list(streams[0])
            idx[0] = len(streams[0])
        while any(idx[i] < len(streams[i]) for i in range(len(streams))):
            live = [i for i in range(len(streams)) if idx[i] < len(streams[i])]
            if draw(st.integers(0, 2)) and arr and arr[-1][0] == "f":
                # tend to continue the same stream so complete presentations stay common
                same = [i for i in live if streams[i][idx[i]][0] == "f" and streams[i][idx[i]][1] == arr[-1][1]]
                i = same[0] if same else draw(st.sampled_from(live))
            else:
                i = draw(st.sampled_from(live))
            arr.append(streams[i][idx[i]])
            idx[i] += 1
        return {"mode": draw(st.sampled_from(modes)), "msgs": msgs, "plains": plains, "arrivals": arr}

    return lambda: case()


def decode_bytes(data):
    """atheris data provider: bytes -> (messages, arrival list).  Byte 0: executor and number of messages; then per message
    3 bytes (sender/destination selector, id selector, fragment count + type selector); the rest is the arrival list, one
    byte per arrival: high bits select dequeue / plain / fragment, low bits message and fragment index."""
    if len(data) < 6:
        return None
    mode = ("fresh", "reuse")[data[0] & 1]
    nm = 1 + ((data[0] >> 1) % 3)
    senders = [0o1, 0o2, 0o3]
    msgs, pos, used = [], 1, set()
    for i in range(nm):
        if pos + 3 > len(data):
            return None
        a, b, c = data[pos:pos + 3]
        pos += 3
        frm, to = senders[a % 3], (0, 0o100)[(a >> 2) & 1]
        fid = (7, 8, 9, 0xFFFF)[b % 4]
        while (frm, fid, to) in used:
            fid = (fid + 1) & 0xFFFF
        used.add((frm, fid, to))
        k = 2 + (c % 6)
        msgs.append({"from": frm, "to": to, "id": fid, "type": (0, 1, 2, 3, 65, 131)[(c >> 3) % 6], "len": (k - 1) * 24 + 1 + (c >> 6), "seed": i + 1})
    arr = []
    for byte in data[pos:pos + 60]:
        sel = byte >> 6
        if sel == 0 and byte & 1:
            arr.append(["deq"])
        elif sel == 1:
            arr.append(["p", byte & 3])
        else:
            mi = (byte >> 3) % nm
            k = (msgs[mi]["len"] + 23) // 24
            arr.append(["f", mi, (byte & 7) % k, "b"])
    if not arr:
        return None
    plains = [{"from": 0o1, "to": 0, "id": 500 + i, "type": 0, "len": 1 + i, "seed": 90 + i} for i in range(4)]
    return {"mode": mode, "msgs": msgs, "plains": plains, "arrivals": arr}


def seed_inputs():
    return [bytes([0, 0, 0, 0]) + bytes([0x80, 0x81]), bytes([3, 0, 0, 1, 1, 0, 0]) + bytes([0x80, 0x88, 0x81, 0x89, 0x01, 0x81]),
            bytes([2, 4, 1, 9]) + bytes([0x80, 0x81, 0x82, 0x01, 0x82])]


def parts(tier):
    if tier == "quick":
        return [Part("enum-small", "enum", _enum(False), exhaustive=True),
                Part("generated", "gen", _strategy(["fresh", "reuse"]), n=5000),
                Part("generated-over-the-air", "gen", _strategy(["air"]), n=160),
                Part("atheris", "fuzz", lambda: {"decoder": "vlib.checks.c06_reassembly:decode_bytes", "seconds": 8, "max_len": 80}, n=0)]
    return [Part("enum-full", "enum", _enum(True), exhaustive=True),
            Part("generated", "gen", _strategy(["fresh", "reuse"]), n=300000),
            Part("generated-over-the-air", "gen", _strategy(["air"]), n=5000),
            Part("atheris", "fuzz", lambda: {"decoder": "vlib.checks.c06_reassembly:decode_bytes", "seconds": 300, "max_len": 80}, n=0)]
