"""Shared helpers for the network-level checks: a population of nodes, each an unmodified
driver object on its own simulated chip and its own task (`while True: update()`), a command
channel to run application calls inside a node's task, and quiescence detection."""
from vlib import boot
from vlib.sim.core import Sim, Mcu, US, MS, SimHorizon, TaskExit
from vlib.sim.radio import Chip, Medium
from vlib.sim.shims import SimSpiDev, SimPin


class NodeCtl:
    def __init__(self, net, key, kind, node, chip, mcu):
        self.net, self.key, self.kind, self.node, self.chip, self.mcu = net, key, kind, node, chip, mcu
        self.cmds = []
        self.task = None
        self.exc = None  # exception that escaped update() or an application call
        self.exc_where = None
        self.updates = 0
        self.ret_types = []
        self.busy = False
        self.on_return = None  # callback(nodectl, what) run each time a public call returns
        self.stopped = False

    def loop(self):
        sim = self.net.sim
        node, chip = self.node, self.chip
        while True:
            if self.stopped:
                return  # power loss: the MCU stops
            while self.cmds:
                fn, box = self.cmds.pop(0)
                self.busy = True
                try:
                    box["result"] = fn(node)
                except (SimHorizon, TaskExit):
                    raise
                except Exception as e:  # noqa: BLE001 - reported by the check as an outcome
                    box["exc"] = e
                box["t_done"] = sim.now
                box["done"] = True
                self.busy = False
                if self.on_return:
                    self.on_return(self, "call")
            if chip.rxf:
                self.net.last_activity = sim.now
            try:
                t = node.update()
            except (SimHorizon, TaskExit):
                raise
            except Exception as e:  # noqa: BLE001
                self.exc, self.exc_where = e, "update"
                raise
            self.updates += 1
            if t:
                self.ret_types.append(t)
            if self.on_return:
                self.on_return(self, "update")
            if t or self.busy:
                self.net.last_activity = sim.now
            if not chip.rxf and not self.cmds:
                # an idle `while True: update()` loop with period `poll`: it reacts to a reception after a
                # delay uniform in [0, poll]; without reception it does nothing observable, so it is not run
                react = 30 * US + int(self.mcu.rng.random() * self.mcu.poll)
                sim.wait_irq(chip, 40 * MS, react)
            else:
                sim.advance(self.mcu.j(20 * US))


class Net:
    def __init__(self, horizon_ms=120000, destructive=False, medium_cls=Medium, spi_budget=6_000_000, id0=0):
        self.sim = Sim(horizon_ns=horizon_ms * MS, spi_budget=spi_budget)
        self.med = medium_cls(self.sim)
        self.med.destructive = destructive
        self.ctl = {}
        self.last_activity = 0
        self.L = boot.lib()
        boot.reset_frame_ids(id0)

    def add(self, key, kind, arg, mcu=None, trace=False, **attrs):
        """kind: net | router | mesh | meshnm; arg: node address or node id"""
        L = self.L
        m = Mcu.from_dict(mcu) if isinstance(mcu, dict) or mcu is None else mcu
        chip = Chip(self.sim, self.med, str(key))
        chip.trace_on = trace
        cls = {"net": L.RF24Network, "router": L.RF24NetworkRoutingOnly, "mesh": L.RF24Mesh, "meshnm": L.RF24MeshNoMaster}[kind]
        prev = self.sim.mcu
        self.sim.mcu = m
        try:
            node = cls(SimSpiDev(chip), SimPin(), SimPin(chip, "ce"), arg)
        finally:
            self.sim.mcu = prev
        for k, v in attrs.items():
            setattr(node, k, v)
        c = NodeCtl(self, key, kind, node, chip, m)
        self.ctl[key] = c
        return c

    def start(self, keys=None, offsets=None):
        for key, c in self.ctl.items():
            if keys is not None and key not in keys:
                continue
            if c.task is None:
                c.task = self.sim.spawn("n%s" % key, c.loop, mcu=c.mcu,
                                        start_at=self.sim.now + (offsets or {}).get(key, 0))

    def post(self, key, fn):
        """queue an application call for node `key`'s task; returns the result box"""
        c = self.ctl[key]
        box = {"done": False, "t_post": self.sim.now}
        c.cmds.append((fn, box))
        if c.task is not None and c.task.idle:
            c.task.wake = min(c.task.wake, self.sim.now)
        return box

    def call(self, key, fn, timeout_ms=60000):
        """run fn(node) inside node `key`'s task and wait (virtual time) for it to return"""
        box = self.post(key, fn)
        self.wait(lambda: box["done"] or self.ctl[key].task.done, timeout_ms)
        return box

    def wait(self, cond, timeout_ms, step_us=200):
        end = self.sim.now + timeout_ms * MS
        while not cond():
            if self.sim.now >= end:
                return False
            self.sim.advance(step_us * US)
        return True

    def quiescent(self, quiet_ms=25):
        """no command running, every RX FIFO empty, every radio idle, nothing on air and no frame
        handled by anybody for quiet_ms"""
        t_air = self.med.log[-1]["t1"] if self.med.log else 0
        if self.sim.now - max(t_air, self.last_activity) < quiet_ms * MS:
            return False
        for c in self.ctl.values():
            if c.task is None or c.task.done:
                continue
            if c.chip.rxf or c.cmds or c.busy or c.chip.state != "idle":
                return False
        return True

    def settle(self, timeout_ms=3000, quiet_ms=25, step_us=2000):
        """advance until the whole network has been quiescent"""
        end = self.sim.now + timeout_ms * MS
        while not self.quiescent(quiet_ms):
            self.sim.advance(step_us * US)
            if self.sim.now >= end:
                return False
        return True

    def dead_tasks(self):
        return [(k, c.exc, c.exc_where) for k, c in self.ctl.items() if c.exc is not None]

    def drain_queues(self):
        out = {}
        for k, c in self.ctl.items():
            frames = []
            q = getattr(c.node, "queue", None)
            while q is not None and len(q):
                f = q.dequeue()
                if f is None:
                    break
                h = f.header
                frames.append((h.from_node, h.to_node, h.frame_id, h.message_type, h.reserved, bytes(f.message)))
            out[k] = frames
        return out


def air_frames(med, src=None, include_unreceived=True, merge_all=False):
    """distinct data packets in air order: the attempts of one payload load (same sender, PID, payload,
    address) collapse into one entry - consecutive attempts only, or, with merge_all, also attempts that
    other nodes' transmissions are interleaved with"""
    out = []
    last = None
    seen = {}
    for e in med.log:
        if e["ack"] or (src is not None and e["src"] != src):
            continue
        k = (e["src"], e["pid"], e["pl"], e["addr"])
        tgt = None
        if merge_all and k in seen:
            tgt = seen[k]
        elif k == last:
            tgt = out[-1]
        if tgt is not None:
            if e["rx"]:
                tgt["rx"] = sorted(set(tgt["rx"]) | set(e["rx"]))
            tgt["attempts"] += 1
            tgt["acked"] = tgt["acked"] or e["acked"]
            continue
        last = k
        d = dict(e)
        d["attempts"] = 1
        d["rx"] = list(e["rx"])
        out.append(d)
        seen[k] = d
    return out


def power_loss(net, key):
    """the node's MCU stops and its radio goes silent"""
    c = net.ctl[key]
    c.stopped = True
    c.chip.set_ce(False)
    c.chip.reg[0] &= ~2
    c.chip._config_written()
    if c.task is not None and c.task.idle:
        c.task.wake = min(c.task.wake, net.sim.now)


# starting values of the library's process-wide 16-bit frame-id counter: a program that has been running for a while
# is anywhere in the range, and the counter wraps
ID0S = [0, 0xFFFF, 0xFFFD, 0xFFF0, 0x00FE, 0x0100, 0x7FFF, 0x8000, 0xFEFF]


def with_id0(part):
    """the same part with a starting frame-id counter added to every case (`id0`, read by run_case):
    enumerations cycle through ID0S, generated cases draw from ID0S or the whole range"""
    from vlib.harness.runner import Part
    src = part.source
    if part.kind == "enum":
        def source():
            for i, c in enumerate(src()):
                yield dict(c, id0=ID0S[(i * 7 + i // 9) % len(ID0S)]) if "id0" not in c else c
    elif part.kind == "gen":
        def source():
            from hypothesis import strategies as st
            ids = st.one_of(st.sampled_from(ID0S), st.integers(0, 0xFFFF))
            return src().flatmap(lambda c: ids.map(lambda i: dict(c, id0=i) if "id0" not in c else c))
    else:
        return part
    return Part(part.name, part.kind, source, n=part.n, exhaustive=part.exhaustive, weight=part.weight)
