"""C04 - tree routing connects all 781 addresses; pipe addresses never collide.

API level only: one simulated chip per address with an RF24Network constructed on it.  Pipe
addresses are read from the chips' registers; routing is exercised by real write() calls
whose packets the (indexed) medium delivers to whichever chips really listen on the on-air
address, each receiver's update() forwarding in turn until a queue takes the frame.
Oracle: vlib.ref.netaddr (octal tree arithmetic and TMRh20 pipe_address(), written
independently): every hop is the reference next hop, transmitted to the reference address,
heard by exactly that node; the register contents equal the reference translation."""
from vlib import boot
from vlib.harness.runner import Result, Part, exc_signature
from vlib.ref import netaddr
from vlib.sim.core import Sim, Mcu, MS, US, SimHorizon
from vlib.sim.radio import Chip, IndexedMedium, Medium
from vlib.sim.shims import SimSpiDev, SimPin

PROPERTY = "C04"
LEVEL = "exploration"
RULE = ("a case = an address configuration (default or drawn 7 distinct prefix/suffix bytes, allow_multicast on/off), a "
        "population (all 781 addresses, or a drawn parent-closed subtree for drawn byte sets) and a block of source nodes; for "
        "every (source, destination) pair of the block a real write() is routed hop by hop (first hop only, or to the "
        "destination's queue), for every node the six pipe addresses are read from the radio, and multicast() to every level is "
        "sent from sampled senders.  unit counters report pairs / hops / (node, pipe) addresses covered.  non-trivial = a case "
        "containing at least one route of >= 2 hops; distinct = SHA-1 of the case JSON")
ASSUMPTIONS = ["custom prefix/suffix bytes and allow_multicast are applied the documented way: set the attributes, re-assign node_address",
               "frames use a non-acknowledged message type, one frame in flight at a time (lock-step in one thread)",
               "the medium offers a packet only to chips that have an enabled pipe on its address, looked up in an index built from "
               "the chips' own registers (IndexedMedium)"]


def population(cfg):
    if cfg["population"] == "all":
        return netaddr.all_nodes()
    return list(cfg["population"])


def build(L, cfg):
    sim = Sim(horizon_ns=10 ** 16, spi_budget=10 ** 12, mcu=Mcu(spi_base=5 * US))
    med = IndexedMedium(sim)
    nodes = {}
    custom = cfg["prefix"] != netaddr.DEFAULT_PREFIX or tuple(cfg["suffix"]) != netaddr.DEFAULT_SUFFIX or not cfg["multicast"]
    pop = population(cfg)
    for i, a in enumerate(pop):
        chip = Chip(sim, med, "%o" % a)
        chip.trace_on = False
        moved = cfg.get("moved")
        if moved:
            # the node was created with another address and moved to its place with the public setter
            was = {"rotate": pop[(i + 1) % len(pop)], "from-default": 0o4444, "from-deep": 0o1234 if a != 0o1234 else 0o4321}[moved]
            n = L.RF24Network(SimSpiDev(chip), SimPin(), SimPin(chip, "ce"), was)
            n.node_address = a
        else:
            n = L.RF24Network(SimSpiDev(chip), SimPin(), SimPin(chip, "ce"), a)
        if custom:
            rekey_node(n, a, cfg["prefix"], cfg["suffix"], cfg["multicast"], cfg.get("keying"))
        nodes[a] = (n, chip)
    med.build_index()
    sim.advance(5 * MS)
    # a second network in the same program, left at the default address bytes (its radios are on a medium of their own)
    med.twins = {}
    med2 = Medium(sim)
    for a in cfg.get("twins", ()):
        chip = Chip(sim, med2, "t%o" % a)
        chip.trace_on = False
        med.twins[a] = (L.RF24Network(SimSpiDev(chip), SimPin(), SimPin(chip, "ce"), a), chip, med2)
    return sim, med, nodes


def rekey_node(n, a, prefix, suffix, multicast, keying=None):
    """the documented way to change the address bytes: set the attributes, then re-assign node_address; the attributes
    are bytearrays, so an application may also edit them element by element ('inplace')"""
    if keying == "inplace":
        n.address_prefix[0] = prefix
        for i, b in enumerate(suffix):
            n.address_suffix[i] = b
    else:
        n.address_prefix = bytearray([prefix])
        n.address_suffix = bytearray(suffix)
    n.allow_multicast = bool(multicast)
    n.node_address = a


def check_twins(res, med, when):
    for a, (n, chip, med2) in med.twins.items():
        got = [chip.pipe_addr(p) for p in range(6)]
        want = netaddr.listening_addresses(a, True, None)
        if got != want:
            p = [i for i in range(6) if got[i] != want[i]][0]
            res.fail("C04/second-network-address-differs/" + when, "a node %o of a second, default-keyed network listens on %s on pipe %d, "
                     "reference %s" % (a, got[p].hex(), p, want[p].hex()))
            return
        if a:
            n0 = len(med2.log)
            n.write(boot.lib().Frame(boot.lib().Header(0, 1), b"tw"))
            sent = [e for e in med2.log[n0:] if not e["ack"]]
            want_tx = netaddr.hop_address(a, netaddr.parent(a), True)
            if not sent or sent[0]["addr"] != want_tx:
                res.fail("C04/second-network-address-differs/" + when, "node %o of a second, default-keyed network transmits to %s, reference %s" % (
                    a, sent[0]["addr"].hex() if sent else None, want_tx.hex()))
                return
    if med.twins:
        res.label("second-network-checked")


def recheck_registers(res, nodes, pop, mc, px, sx, tag):
    """after traffic every node must listen on exactly the addresses it listened on after configuration"""
    for a in pop:
        chip = nodes[a][1]
        got = [chip.pipe_addr(p) for p in range(6)]
        want = netaddr.listening_addresses(a, mc, None, px, sx)
        res.counts["node_pipe_addresses_after_traffic"] = res.counts.get("node_pipe_addresses_after_traffic", 0) + 6
        if chip.reg[2] & 0x3F != 0x3F:
            res.fail("C04/pipe-closed" + tag, "node %o has EN_RXADDR 0x%02X" % (a, chip.reg[2]))
            return
        for p in range(6):
            if got[p] != want[p]:
                res.fail("C04/pipe%d-address-differs%s" % (min(p, 1), tag), "node %o pipe %d listens on %s, reference %s" % (
                    a, p, got[p].hex(), want[p].hex()))
                return


def run_case(case):
    L = boot.lib()
    res = Result()
    cfg = case["cfg"]
    mc, px, sx = bool(cfg["multicast"]), cfg["prefix"], tuple(cfg["suffix"])
    try:
        sim, med, nodes = build(L, cfg)
    except Exception as e:  # noqa: BLE001
        res.fail(exc_signature("C04/construction-raises", e), repr(e))
        return res
    pop = sorted(nodes)
    check_twins(res, med, "after-construction")
    name2addr = {"%o" % a: a for a in pop}
    tag = "" if cfg["population"] == "all" and px == 0xCC and sx == netaddr.DEFAULT_SUFFIX else "/custom-bytes"
    if not mc:
        tag += "/multicast-off"

    # ---- (1)+(2)+(3 of the statement): registers, uniqueness, hardware shape
    if case["mode"] == "registers":
        listeners = {}
        for a in pop:
            chip = nodes[a][1]
            got = [chip.pipe_addr(p) for p in range(6)]
            want = netaddr.listening_addresses(a, mc, None, px, sx)
            res.counts["node_pipe_addresses"] = res.counts.get("node_pipe_addresses", 0) + 6
            if chip.reg[2] & 0x3F != 0x3F:
                res.fail("C04/pipe-closed" + tag, "node %o has EN_RXADDR 0x%02X" % (a, chip.reg[2]))
            for p in range(6):
                if got[p] != want[p]:
                    res.fail("C04/pipe%d-address-differs%s" % (min(p, 1), tag), "node %o pipe %d listens on %s, reference %s" % (
                        a, p, got[p].hex(), want[p].hex()))
                listeners.setdefault(got[p], []).append((a, p))
            if any(bytes(chip.areg[0x0B][1:5]) != got[p][1:5] for p in range(1, 6)):
                res.fail("C04/pipes-1-5-differ-beyond-first-byte" + tag, "node %o" % a)
            if len({g[0] for g in got[1:]}) != 5:
                res.fail("C04/pipes-1-5-share-first-byte" + tag, "node %o: %s" % (a, [g.hex() for g in got[1:]]))
        for addr, ls in listeners.items():
            if len(ls) == 1:
                continue
            levels = {netaddr.level(a) for a, p in ls}
            if mc and all(p == 0 for a, p in ls) and len(levels) == 1:
                lv = next(iter(levels))
                members = {a for a in pop if netaddr.level(a) == lv}
                if {a for a, p in ls} != members:
                    res.fail("C04/level-address-not-shared-by-whole-level" + tag, "level %d" % lv)
                continue
            res.fail("C04/address-collision" + tag, "%s is listened on by %s" % (addr.hex(), ["%o/p%d" % x for x in ls[:4]]))
        if mc:
            for lv in range(5):
                members = [a for a in pop if netaddr.level(a) == lv]
                if members and not all(nodes[a][1].pipe_addr(0) == netaddr.level_address(lv, px, sx) for a in members):
                    res.fail("C04/level-address-differs" + tag, "level %d" % lv)
        res.nontrivial = True
        res.label("registers")
        return res

    # ---- multicast(level) goes to exactly the level address
    if case["mode"] == "multicast":
        if not mc:
            res.inconclusive = "multicast() on nodes configured with allow_multicast off is not in the property's domain"
            return res
        for s in case["srcs"]:
            node, chip = nodes[s]
            for lv in (None, 0, 1, 2, 3, 4):
                target = netaddr.level(s) if lv is None else lv
                n0 = len(med.log)
                try:
                    node.multicast(b"mc", 1, lv) if lv is not None else node.multicast(b"mc", 1)
                except Exception as e:  # noqa: BLE001
                    res.fail(exc_signature("C04/multicast-raises", e), "node %o level %r: %r" % (s, lv, e))
                    continue
                sent = [e for e in med.log[n0:] if not e["ack"] and e["src"] == "%o" % s]
                want = netaddr.level_address(target, px, sx)
                res.counts["multicasts"] = res.counts.get("multicasts", 0) + 1
                if not sent and not [a for a in pop if netaddr.level(a) == target and a != s]:
                    pass  # nobody else on that level (the master's own level): nothing has to go on air
                elif not sent:
                    res.fail("C04/multicast-not-transmitted/level%d-from-%s" % (target, "0o1" if s == 1 else "level%d" % netaddr.level(s)),
                             "node %o multicast(level=%r) put nothing on air" % (s, lv))
                elif sent[0]["addr"] != want:
                    res.fail("C04/multicast-wrong-address/level%d" % target, "node %o multicast(level=%r) went to %s, level %d address is %s" % (
                        s, lv, sent[0]["addr"].hex(), target, want.hex()))
                else:
                    heard = {name2addr[n] for e in sent for n in e["rx"]}
                    members = {a for a in pop if netaddr.level(a) == target and a != s}
                    if heard != members:
                        res.fail("C04/multicast-wrong-receivers", "level %d multicast from %o heard by %d nodes, level has %d others" % (
                            target, s, len(heard), len(members)))
                for n in {nm for e in med.log[n0:] for nm in e["rx"]}:
                    c = nodes[name2addr[n]][1]
                    c.rxf.clear()
                    c.flags = 0
                node.queue.dequeue()
                del med.log[:]
        res.nontrivial = True
        res.label("multicast")
        return res

    # ---- routing
    rekey = None
    if case["mode"] == "route-rekey":
        # phase 1 routes with the default bytes; then every node is re-keyed the documented way (set the attributes,
        # re-assign node_address) and the same pairs are routed again under the new bytes
        rekey = case["rekey"]
    full = case["mode"] in ("route-full", "route-rekey")
    try:
      for phase in ((0, 1) if rekey else (0,)):
        if phase == 1:
            px, sx, mc = rekey["prefix"], tuple(rekey["suffix"]), bool(rekey["multicast"])
            for a in pop:
                rekey_node(nodes[a][0], a, px, sx, mc, rekey.get("keying"))
            check_twins(res, med, "after-rekey")
            med.build_index()
            sim.advance(2 * MS)
            tag = "/after-rekey"
        for s in case["srcs"]:
            for d in pop:
                if d == s:
                    continue
                path = netaddr.tree_path(s, d)
                if len(path) >= 2:
                    res.nontrivial = True
                res.counts["pairs"] = res.counts.get("pairs", 0) + 1
                cur = s
                fr = L.Frame(L.Header(d, 1), b"%o>%o" % (s, d))
                fid = fr.header.frame_id
                hops = path if full else path[:1]
                ok = True
                for hi, nxt in enumerate(hops):
                    n0 = len(med.log)
                    node = nodes[cur][0]
                    if hi == 0:
                        ret = node.write(fr)
                        if ret is not True:
                            res.fail("C04/write-fails" + tag, "write() %o -> %o returned %r" % (s, d, ret))
                    else:
                        node.update()
                    sent = [e for e in med.log[n0:] if not e["ack"] and e["src"] == "%o" % cur]
                    res.counts["hops"] = res.counts.get("hops", 0) + 1
                    if not sent:
                        res.fail("C04/hop-not-transmitted" + tag, "%o -> %o: node %o transmitted nothing (reference next hop %o)" % (s, d, cur, nxt))
                        ok = False
                        break
                    want = netaddr.hop_address(cur, nxt, mc, px, sx)
                    heard = sorted({name2addr[n] for e in sent for n in e["rx"]})
                    if sent[0]["addr"] != want or heard != [nxt]:
                        kind = "to-parent" if netaddr.parent(cur) == nxt else "to-child"
                        if heard and heard != [nxt]:
                            res.fail("C04/wrong-next-hop/%s%s" % (kind, tag), "%o -> %o: node %o reached %s, tree path continues with %o" % (
                                s, d, cur, ["%o" % h for h in heard], nxt))
                        else:
                            res.fail("C04/hop-address-unheard/%s%s" % (kind, tag), "%o -> %o: node %o transmitted to %s (reference %s), heard by %s" % (
                                s, d, cur, sent[0]["addr"].hex(), want.hex(), ["%o" % h for h in heard]))
                        ok = False
                    listeners = {c.name for c in med.index.get(sent[0]["addr"], ())}
                    if ok and listeners != {"%o" % nxt}:
                        res.fail("C04/hop-address-shared" + tag, "address %s is listened on by %s" % (sent[0]["addr"].hex(), sorted(listeners)))
                    for e in med.log[n0:]:
                        for nm in e["rx"]:
                            if name2addr.get(nm) != nxt or not full:
                                c = nodes[name2addr[nm]][1]
                                c.rxf.clear()
                                c.flags = 0
                    del med.log[:]
                    if not ok:
                        break
                    cur = nxt
                if full and ok:
                    dn = nodes[d][0]
                    dn.update()
                    f = dn.read()
                    if f is None or bytes(f.message) != b"%o>%o" % (s, d) or f.header.from_node != s or f.header.frame_id != fid:
                        res.fail("C04/not-delivered" + tag, "%o -> %o: destination queue holds %r after %d hops" % (
                            s, d, None if f is None else bytes(f.message), len(path)))
                    if dn.available():
                        res.fail("C04/delivered-twice" + tag, "%o -> %o" % (s, d))
                        while dn.available():
                            dn.read()
                    if len(path) > 8:
                        res.fail("C04/more-than-8-hops", "%o -> %o" % (s, d))
                elif not ok:
                    for a in pop:
                        c = nodes[a][1]
                        if c.rxf:
                            c.rxf.clear()
                            c.flags = 0
                        while nodes[a][0].available():
                            nodes[a][0].read()
        recheck_registers(res, nodes, pop, mc, px, sx, tag + "/after-traffic")
    except SimHorizon:
        res.fail("C04/does-not-terminate", "virtual time horizon")
    except Exception as e:  # noqa: BLE001
        res.fail(exc_signature("C04/raises", e), repr(e))
    res.label(case["mode"], "multicast-on" if mc else "multicast-off", "custom" if tag.startswith("/custom") else "default-bytes")
    return res


# ---------------------------------------------------------------------------- case sources
DEFAULT_CFG = {"prefix": 0xCC, "suffix": list(netaddr.DEFAULT_SUFFIX), "multicast": True, "population": "all"}


def _blocks(mode, cfg, nblocks, take=None):
    allp = netaddr.all_nodes()

    def gen():
        for b in range(nblocks):
            srcs = allp[b::nblocks]
            if take is not None:
                srcs = srcs[:take]
            yield {"cfg": cfg, "mode": mode, "srcs": srcs}
    return gen


def _fixed(quick):
    off = dict(DEFAULT_CFG, multicast=False)

    def gen():
        for cfg in (DEFAULT_CFG, off):
            yield {"cfg": cfg, "mode": "registers", "srcs": []}
        allp = netaddr.all_nodes()
        samp = [0, 0o1, 0o2, 0o5, 0o11, 0o21, 0o35, 0o111, 0o345, 0o1111, 0o5555, 0o2345] if quick else allp[::7]
        for i in range(0, len(samp), 4):
            yield {"cfg": DEFAULT_CFG, "mode": "multicast", "srcs": samp[i:i + 4]}
    return gen


def _drawn_strategy():
    from hypothesis import strategies as st

    @st.composite
    def case(draw):
        bs = draw(st.lists(st.integers(0, 255), min_size=7, max_size=7, unique=True))
        pop = [0]
        for _ in range(draw(st.integers(6, 24))):
            par = draw(st.sampled_from([p for p in pop if netaddr.level(p) < 4]))
            c = par | (draw(st.integers(1, 5)) << (3 * netaddr.level(par)))
            if c not in pop:
                pop.append(c)
        keying = draw(st.sampled_from(["assign", "inplace"]))
        twins = draw(st.sampled_from([[], [0, 0o1, 0o23], [0o5, 0o314]]))
        cfg = {"prefix": bs[0], "suffix": bs[1:], "multicast": draw(st.booleans()), "population": sorted(pop), "keying": keying, "twins": twins,
               "moved": draw(st.sampled_from([None, None, "rotate", "from-default", "from-deep"]))}
        mode = draw(st.sampled_from(["route-full", "route-full", "registers", "multicast", "route-rekey"]))
        if mode == "route-rekey":
            return {"cfg": dict(DEFAULT_CFG, population=sorted(pop), twins=twins), "mode": mode, "srcs": sorted(pop),
                    "rekey": {"prefix": bs[0], "suffix": bs[1:], "multicast": cfg["multicast"], "keying": keying}}
        return {"cfg": cfg, "mode": mode, "srcs": sorted(pop) if mode != "registers" else []}

    return case()


def _drawn_all_strategy():
    """drawn byte sets on the complete population: registers / uniqueness only (routing uses subtrees)"""
    from hypothesis import strategies as st
    return st.lists(st.integers(0, 255), min_size=7, max_size=7, unique=True).flatmap(lambda bs: st.booleans().map(
        lambda m: {"cfg": {"prefix": bs[0], "suffix": bs[1:], "multicast": m, "population": "all"}, "mode": "registers", "srcs": []}))


def _rekey_fixed():
    pop = [0, 0o1, 0o2, 0o11, 0o21, 0o12, 0o111, 0o211]
    for px, sx, mc in ((0x5A, [0xA1, 0xB2, 0xC3, 0xD4, 0xE5, 0xF6], True), (0x11, [0x22, 0x33, 0x44, 0x55, 0x66, 0x77], False),
                       (0xCC, list(netaddr.DEFAULT_SUFFIX), False)):
        for keying in ("assign", "inplace"):
            yield {"cfg": dict(DEFAULT_CFG, population=pop, twins=[0, 0o1, 0o23]), "mode": "route-rekey", "srcs": pop,
                   "rekey": {"prefix": px, "suffix": sx, "multicast": mc, "keying": keying}}


def _moved():
    """every node of the complete population was created elsewhere and moved to its address: registers and uniqueness on all
    781 nodes, all first hops"""
    for moved in ("rotate", "from-default", "from-deep"):
        yield {"cfg": dict(DEFAULT_CFG, moved=moved), "mode": "registers", "srcs": []}
        pop = [0, 0o1, 0o2, 0o11, 0o21, 0o12, 0o111, 0o211, 0o1111, 0o3]
        yield {"cfg": dict(DEFAULT_CFG, population=pop, moved=moved), "mode": "route-full", "srcs": pop}


def parts(tier):
    if tier == "quick":
        return [Part("registers+multicast", "enum", _fixed(True), exhaustive=True),
                Part("nodes-moved-to-their-address", "enum", _moved, exhaustive=True),
                Part("first-hop-all-pairs", "enum", _blocks("route-first", DEFAULT_CFG, 48), exhaustive=True),
                Part("full-delivery-sample", "enum", _blocks("route-full", DEFAULT_CFG, 16, take=3)),
                Part("full-delivery-sample-multicast-off", "enum", _blocks("route-full", dict(DEFAULT_CFG, multicast=False), 16, take=1)),
                Part("rekey-after-traffic", "enum", _rekey_fixed, exhaustive=True),
                Part("drawn-bytes-subtrees", "gen", _drawn_strategy, n=64),
                Part("drawn-bytes-all-nodes", "gen", _drawn_all_strategy, n=16)]
    return [Part("registers+multicast", "enum", _fixed(False), exhaustive=True),
            Part("nodes-moved-to-their-address", "enum", _moved, exhaustive=True),
            Part("full-delivery-all-pairs", "enum", _blocks("route-full", DEFAULT_CFG, 96), exhaustive=True),
            Part("full-delivery-all-pairs-multicast-off", "enum", _blocks("route-full", dict(DEFAULT_CFG, multicast=False), 96), exhaustive=True),
            Part("rekey-after-traffic", "enum", _rekey_fixed, exhaustive=True),
            Part("drawn-bytes-subtrees", "gen", _drawn_strategy, n=3000),
            Part("drawn-bytes-all-nodes", "gen", _drawn_all_strategy, n=300)]
