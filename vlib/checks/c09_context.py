"""C09 - `with` restores an object's complete radio configuration.

Several driver objects (RF24, FakeBLE, RF24Network, RF24Mesh) are constructed on ONE shared
(spi, csn, ce) triple and chip and used only inside their own `with` blocks, in a drawn
interleaving, each performing drawn configuration calls.  Oracle (a relation between two
points of the history, read from the chip): the snapshot of every configuration register at
the end of an object's block equals the snapshot immediately after that object's next
__enter__, whatever other objects did in between; __exit__ leaves PWR_UP=0 and CE low."""
from vlib import boot
from vlib.harness.runner import Result, Part, exc_signature
from vlib.sim.core import Sim
from vlib.sim.radio import Chip, Medium
from vlib.sim.shims import SimSpiDev, SimPin
from vlib.checks import c03_config

PROPERTY = "C09"
LEVEL = "exploration"
RULE = ("a case = 2..3 objects of drawn classes {RF24, FakeBLE, RF24Network, RF24Mesh} on one shared radio + a drawn "
        "interleaving of 3..12 with-blocks, each with 0..8 configuration calls of that class (RF24: the C03 alphabet; FakeBLE: "
        "name, show_pa_level, hop_channel, channel, pa_level, payload_length, interrupt_config, listen; network/mesh: channel, "
        "pa_level, data_rate, crc, set_auto_retries, node_address, multicast_level, listen, power, interrupt_config, "
        "set_dynamic_payloads); non-trivial = an object is re-entered while the radio's configuration registers differ from "
        "what that object last established; distinct = SHA-1 of the case JSON")
ASSUMPTIONS = ["all objects are constructed first and then used only inside their own with-blocks, as the property states",
               "CONFIG is compared on its IRQ-mask and CRC bits (PWR_UP / PRIM_RX are role state, not configuration)"]
SHRINK_LISTS = ("blocks", "ops")
REGNAMES = {0: "CONFIG", 1: "EN_AA", 2: "EN_RXADDR", 3: "SETUP_AW", 4: "SETUP_RETR", 5: "RF_CH", 6: "RF_SETUP",
            0x0A: "RX_ADDR_P0", 0x0B: "RX_ADDR_P1", 0x0C: "RX_ADDR_P2", 0x0D: "RX_ADDR_P3", 0x0E: "RX_ADDR_P4",
            0x0F: "RX_ADDR_P5", 0x10: "TX_ADDR", 0x11: "RX_PW_P0", 0x12: "RX_PW_P1", 0x13: "RX_PW_P2", 0x14: "RX_PW_P3",
            0x15: "RX_PW_P4", 0x16: "RX_PW_P5", 0x1C: "DYNPD", 0x1D: "FEATURE"}


def snapshot(chip):
    d = chip.regfile()
    d[0] &= 0x7C
    for k in (0x0A, 0x0B, 0x10):
        d[k] = bytes(d[k])
    return d


def apply_op(L, kind, obj, op):
    name = op[0]
    a = [c03_config.dec(x) for x in op[1:]]
    if name == "print":
        c03_config.print_report(obj, a)  # every class inherits print_pipes()/print_details(); they re-read the shadows
        return
    if kind == "RF24":
        if name in ("getters", "getp", "ctx", "get"):
            if name == "getters":
                c03_config.read_getters(obj, False)
            elif name == "get":
                getattr(obj, a[0])  # one getter on its own: it refreshes (only) its own shadow registers
            return
        c03_config.call_driver(obj, False, name, a)
        return
    if kind == "FakeBLE" and name in c03_config.REG_OF_OP and name not in ("channel", "pa_level", "payload_length", "interrupt_config", "listen", "ctx", "getters", "getp", "print"):
        # calls that FakeBLE overrides to raise NotImplementedError (or inherits): rejected or not, the next
        # re-entry must restore what the radio held
        c03_config.call_driver(obj, False, name, a)
        return
    if name == "ble_name":
        obj.name = a[0]
    elif name == "ble_show_pa":
        obj.show_pa_level = a[0]
    elif name == "ble_hop":
        obj.hop_channel()
    elif name == "node_address":
        obj.node_address = a[0]
    elif name == "multicast_level":
        obj.multicast_level = a[0]
    elif name == "set_auto_retries":
        obj.set_auto_retries(a[0], a[1])
    elif name == "set_dynamic_payloads":
        obj.set_dynamic_payloads(a[0], a[1])
    elif name == "interrupt_config":
        obj.interrupt_config(a[0], a[1], a[2])
    elif name in ("channel", "pa_level", "data_rate", "crc", "listen", "power", "payload_length"):
        setattr(obj, name, a[0])
    else:
        raise ValueError("unknown op %r for %s" % (name, kind))


def run_case(case):
    L = boot.lib()
    res = Result()
    sim = Sim()
    chip = Chip(sim, Medium(sim), "D")
    chip.trace_on = False
    spi, csn, ce = SimSpiDev(chip), SimPin(), SimPin(chip, "ce")
    objs = []
    for spec in case["objs"]:
        k = spec[0]
        if k == "RF24":
            o = L.RF24(spi, csn, ce)
        elif k == "FakeBLE":
            o = L.FakeBLE(spi, csn, ce)
            o.mac = b"\x01\x02\x03\x04\x05\x06"
        elif k == "Network":
            o = L.RF24Network(spi, csn, ce, spec[1])
        elif k == "Mesh":
            o = L.RF24Mesh(spi, csn, ce, spec[1])
        else:
            raise ValueError(k)
        objs.append((k, o))
    last_end = {}
    cur = None
    try:
        for bi, blk in enumerate(case["blocks"]):
            i = blk["o"] % len(objs)
            kind, o = objs[i]
            before_enter = snapshot(chip)
            o.__enter__()
            got = snapshot(chip)
            if i in last_end:
                if before_enter != last_end[i]:
                    res.nontrivial = True
                diff = [(r, got[r], last_end[i][r]) for r in sorted(got) if got[r] != last_end[i][r]]
                if diff:
                    r, a, b = diff[0]
                    res.fail("C09/%s-not-restored" % REGNAMES.get(r, hex(r)), "%s object #%d re-entered (block %d): %s is %s, "
                             "the object had established %s" % (kind, i, bi, REGNAMES.get(r, hex(r)), _f(a), _f(b)))
            if not chip.powered():
                res.fail("C09/enter-leaves-radio-off", "PWR_UP=0 after __enter__")
            for op in blk["ops"]:
                try:
                    apply_op(L, kind, o, op)
                except (ValueError, IndexError, NotImplementedError, AttributeError, TypeError):
                    pass  # rejected argument; the round trip must hold regardless
            last_end[i] = snapshot(chip)
            # every third block is left through an exception raised by the application inside it (what `with` then passes
            # to __exit__): "leaving a block powers the radio down" does not depend on how it is left
            if blk.get("exc", (bi + len(blk["ops"])) % 3 == 2):
                err = ValueError("application error inside the with-block")
                o.__exit__(ValueError, err, None)
                res.label("block-left-through-an-exception")
            else:
                o.__exit__(None, None, None)
            if chip.powered() or chip.ce:
                res.fail("C09/exit-leaves-radio-on", "after __exit__ of %s: PWR_UP=%d CE=%d" % (kind, chip.powered(), chip.ce))
            after_exit = snapshot(chip)
            if after_exit != last_end[i]:
                diff = [r for r in sorted(after_exit) if after_exit[r] != last_end[i][r]]
                res.fail("C09/exit-changes-%s" % REGNAMES.get(diff[0], hex(diff[0])), "__exit__ altered a configuration register")
    except Exception as e:  # noqa: BLE001
        res.fail(exc_signature("C09/raises", e), repr(e))
    kinds = sorted({k for k, _ in objs})
    res.label("+".join(kinds))
    return res


def _f(v):
    return v.hex() if isinstance(v, (bytes, bytearray)) else "0x%02X" % v


def _strategy():
    from hypothesis import strategies as st
    b = st.booleans()
    rf24_ops = c03_config.strategy("full").map(lambda c: c["ops"][:-3])
    common = [
        st.tuples(st.just("channel"), st.sampled_from([0, 2, 26, 76, 80, 125, 126])),
        st.tuples(st.just("pa_level"), st.sampled_from([-18, -12, -6, 0])),
        st.tuples(st.just("interrupt_config"), b, b, b), st.tuples(st.just("listen"), b),
    ]
    common.append(st.sampled_from([("print", "pipes"), ("print", "details", True), ("print", "details", False)]))
    rejected = st.sampled_from([("set_auto_ack", True, 1), ("set_auto_ack", True, 0), ("auto_ack", True), ("auto_ack", 0x3F), ("dynamic_payloads", True),
                                ("set_dynamic_payloads", True, 2), ("data_rate", 2), ("data_rate", 250), ("address_length", 5), ("address_length", 3),
                                ("ack", True), ("crc", 2), ("crc", 1), ("set_auto_retries", 250, 3), ("arc", 3), ("ard", 1000),
                                ("allow_ask_no_ack", False), ("set_payload_length", 8, 1), ("power", False),
                                ("open_tx_pipe", {"t": "bytes", "v": "a1a2a3a4a5"}), ("open_rx_pipe", 1, {"t": "bytes", "v": "c1c2c3c4c5"}),
                                ("close_rx_pipe", 0)])
    ble_op = st.one_of(*common, rejected, rejected, st.tuples(st.just("ble_name"), st.sampled_from(["n", "nRF24", {"t": "none"}])),
                       st.tuples(st.just("ble_show_pa"), b), st.just(("ble_hop",)),
                       st.tuples(st.just("payload_length"), st.integers(1, 32))).map(list)
    net_op = st.one_of(*common, st.tuples(st.just("data_rate"), st.sampled_from([1, 2, 250])),
                       st.tuples(st.just("crc"), st.integers(0, 2)),
                       st.tuples(st.just("set_auto_retries"), st.sampled_from([250, 1000, 1500, 4000]), st.integers(0, 15)),
                       st.tuples(st.just("node_address"), st.sampled_from([0, 0o1, 0o5, 0o15, 0o444, 0o4444, 0o6, 0o3125])),
                       st.tuples(st.just("multicast_level"), st.integers(0, 4)), st.tuples(st.just("power"), b),
                       st.tuples(st.just("set_dynamic_payloads"), b, st.one_of(st.integers(0, 5), st.just({"t": "none"})))
                       ).map(list)
    mesh_op = net_op.filter(lambda o: o[0] != "node_address")
    obj = st.one_of(st.just(["RF24"]), st.just(["RF24"]), st.just(["FakeBLE"]),
                    st.tuples(st.just("Network"), st.sampled_from([0, 0o1, 0o25, 0o314])).map(list),
                    st.tuples(st.just("Mesh"), st.sampled_from([0, 3, 200])).map(list))

    @st.composite
    def case(draw):
        objs = draw(st.lists(obj, min_size=2, max_size=3))
        blocks = []
        for _ in range(draw(st.integers(3, 12))):
            i = draw(st.integers(0, len(objs) - 1))
            k = objs[i][0]
            if k == "RF24":
                ops = draw(rf24_ops)[:8]
            else:
                ops = draw(st.lists({"FakeBLE": ble_op, "Network": net_op, "Mesh": mesh_op}[k], max_size=8))
            blocks.append({"o": i, "ops": ops})
        return {"objs": objs, "blocks": blocks}

    return case()


B = c03_config.B
PRINTS = [["print", "pipes"], ["print", "details", True]]
COMMON = [["channel", 2], ["channel", 125], ["pa_level", -12], ["interrupt_config", False, True, False], ["listen", True],
          ["listen", False]] + PRINTS
ALPHA = {
    "RF24": [["channel", 7], ["data_rate", 250], ["pa_level", -18], ["crc", 1], ["crc", 0], ["address_length", 3], ["address_length", 4],
             ["set_auto_retries", 1000, 7], ["auto_ack", 0x3E], ["auto_ack", False], ["dynamic_payloads", 0x01],
             ["dynamic_payloads", False], ["payload_length", 7], ["set_payload_length", 9, 1], ["ack", True],
             ["allow_ask_no_ack", False], ["interrupt_config", True, False, True], ["power", False],
             ["open_rx_pipe", 0, B("a1a2a3a4a5")], ["open_rx_pipe", 0, B("b1b2")], ["open_rx_pipe", 1, B("c1c2c3c4c5")],
             ["open_rx_pipe", 1, B("d1d2d3")], ["open_rx_pipe", 2, B("e1")], ["open_rx_pipe", 5, B("f1")], ["close_rx_pipe", 0],
             ["close_rx_pipe", 1], ["open_tx_pipe", B("7172737475")], ["open_tx_pipe", B("9192")], ["listen", True],
             ["listen", False], ["start_carrier_wave"], ["get", "ack"], ["get", "auto_ack"], ["get", "dynamic_payloads"]] + PRINTS,
    "FakeBLE": COMMON + [["ble_name", "nRF24"], ["ble_show_pa", True], ["ble_hop"], ["payload_length", 20], ["channel", 26],
                         ["set_auto_ack", True, 1], ["auto_ack", True], ["dynamic_payloads", True], ["set_dynamic_payloads", True, 2],
                         ["data_rate", 2], ["address_length", 5], ["ack", True], ["crc", 1], ["set_auto_retries", 250, 3], ["arc", 3],
                         ["allow_ask_no_ack", False], ["set_payload_length", 8, 1], ["open_tx_pipe", B("a1a2a3a4a5")],
                         ["open_rx_pipe", 1, B("c1c2c3c4c5")], ["close_rx_pipe", 0]],
    "Network": COMMON + [["data_rate", 2], ["crc", 1], ["set_auto_retries", 1500, 3], ["node_address", 0o15], ["node_address", 0o3125],
                         ["node_address", 0], ["multicast_level", 3], ["power", False], ["set_dynamic_payloads", False, 2]],
    "Mesh": COMMON + [["data_rate", 250], ["crc", 0], ["set_auto_retries", 4000, 15], ["multicast_level", 1], ["power", False],
                      ["set_dynamic_payloads", False, {"t": "none"}]],
}
SPECS = {"RF24": ["RF24"], "FakeBLE": ["FakeBLE"], "Network": ["Network", 0o25], "Mesh": ["Mesh", 3]}


def _enum(depth):
    """object A configures itself with `depth` calls, object B (any class, also A's own) uses the radio and makes one call,
    A is re-entered, then B: every ordered class pair x every call of the per-class alphabets"""
    import itertools

    def gen():
        for ka in ALPHA:
            for kb in ALPHA:
                for wa in itertools.product(ALPHA[ka], repeat=depth):
                    for y in ALPHA[kb]:
                        yield {"objs": [SPECS[ka], SPECS[kb]],
                               "blocks": [{"o": 0, "ops": [list(x) for x in wa]}, {"o": 1, "ops": [list(y)]}, {"o": 0, "ops": []},
                                          {"o": 1, "ops": []}, {"o": 0, "ops": []}]}
    return gen


P0_CORE = [["open_rx_pipe", 0, B("a1a2a3a4a5")], ["open_rx_pipe", 0, B("b1b2")], ["close_rx_pipe", 0], ["open_tx_pipe", B("7172737475")],
           ["open_tx_pipe", B("a1a2a3a4a5")], ["open_tx_pipe", B("9192")], ["listen", True], ["listen", False], ["auto_ack", 0x3E]]


def _enum_pipe0(depth):
    """an RF24 object makes every sequence of `depth` pipe-0 / TX-address / role calls (the registers whose shadows the
    driver juggles), another object of any class uses the radio, the first is re-entered"""
    import itertools

    def gen():
        for w in itertools.product(P0_CORE, repeat=depth):
            for kb in ALPHA:
                yield {"objs": [SPECS["RF24"], SPECS[kb]],
                       "blocks": [{"o": 0, "ops": [list(x) for x in w]}, {"o": 1, "ops": []}, {"o": 0, "ops": []}, {"o": 1, "ops": []}, {"o": 0, "ops": []}]}
    return gen


def parts(tier):
    if tier == "quick":
        return [Part("enum-pairs-1x1", "enum", _enum(1), exhaustive=True), Part("enum-rf24-pipe0-words-depth3", "enum", _enum_pipe0(3), exhaustive=True), Part("generated", "gen", _strategy, n=3000)]
    return [Part("enum-pairs-2x1", "enum", _enum(2), exhaustive=True), Part("enum-rf24-pipe0-words-depth4", "enum", _enum_pipe0(4), exhaustive=True), Part("generated", "gen", _strategy, n=40000)]
