"""C01 - link payload integrity: what send() is given is what the peer's read() returns.

Oracle: expected payload sequence computed from the documentation (zero-pad / truncate to
the static length, unchanged when dynamic), compared with (a) what the peer's
available()/pipe/any()/read() hand out, (b) the W_TX_PAYLOAD bytes on the SPI bus, and
(c) the caller's buffer before/after.  The same module serves C20 (drv/peer = 'lite')."""
from vlib.harness.runner import Result, Part, exc_signature
from vlib.ref import esb
from vlib.sim.core import SimHorizon, US, MS
from vlib.checks.linkutil import Link, unhex, with_plus

PROPERTY = "C01"
LEVEL = "exploration"
RULE = ("a case = shared link settings (channel, rate, CRC, address width, legal ARD, auto-ack, ask_no_ack), receiving pipe "
        "0..5 with six distinct pipe addresses, payload mode (dynamic / static L, optionally per-pipe lengths on the "
        "receiver, per-pipe dynamic masks that agree on the pipes in use, ACK payloads enabled on both ends afterwards), an "
        "optional pre-history of 1..4 payload-mode / auto-ack / ACK-payload / link-setting calls on one or both ends that the configuration "
        "overrides, and 1..3 send() / write() calls, each a bytes/bytearray buffer of 0..40 bytes or a list/tuple of 1..3 such buffers; "
        "non-trivial = at least one payload delivered AND (static mode with len != L, or pipe >= 2, or list input, or a "
        "bytearray argument); distinct = SHA-1 of the case JSON")
ASSUMPTIONS = ["delivery is asserted only for compatibly configured ends (DESIGN 2.6); the medium is loss-free",
               "lists are at most 3 payloads long because the peer is drained between send() calls (3-level RX FIFO)"]
SHRINK_LISTS = ("calls",)
PREFIX = "C01"


def simplify(case):
    if "calls" not in case:
        return
    for i, call in enumerate(case["calls"]):
        for j, it in enumerate(call["items"]):
            if len(it[0]) > 2:
                c = dict(case)
                c["calls"] = [dict(x, items=[list(y) for y in x["items"]]) for x in case["calls"]]
                c["calls"][i]["items"][j][0] = it[0][:len(it[0]) // 4 * 2]
                yield c
    if case["pipe"] > 1:
        yield dict(case, pipe=1)
    if case["ch"] != 76:
        yield dict(case, ch=76)
    if case["rate"] != 1:
        yield dict(case, rate=1)


def pipe_addresses(case):
    a0, a1 = unhex(case["a0"]), unhex(case["a1"])
    return [a0, a1] + [bytes([b]) + a1[1:] for b in case["lsb"]]


def configure(case, lk):
    tx, rx = lk.tx, lk.rx
    lite_t, lite_r = lk.tx_kind == "lite", lk.rx_kind == "lite"
    # configuration history: what both ends had been set to before (another payload mode, ACK payloads, per-pipe
    # settings); the configuration below overrides all of it, so the ends are configured compatibly whatever came first
    side = case.get("pre_side", "both")
    for op in case.get("pre", ()):
        for r, lite in ([(tx, lite_t)] if side == "tx" else [(rx, lite_r)] if side == "rx" else [(tx, lite_t), (rx, lite_r)]):
            if lite and (op[0].startswith("set_") or op[0] in ("auto_ack", "crc") or not isinstance(op[1], (bool, int)) or
                         (op[0] == "dynamic_payloads" and not isinstance(op[1], bool))):
                continue
            if op[0].startswith("set_"):
                getattr(r, op[0])(op[1], op[2])
            else:
                setattr(r, op[0], op[1])
    pipes_first = case.get("order") == "pipes-first" and not lite_t and not lite_r
    if pipes_first:
        # the application opens its pipes (the receiver, being a transceiver, also a TX pipe) BEFORE it applies the link
        # settings: the order of these legal calls must not matter
        early = pipe_addresses(case)
        for p in range(6):
            rx.open_rx_pipe(p, early[p])
        rx.open_tx_pipe(bytes([early[0][0] ^ 0x3C]) + early[0][1:4] + bytes([early[0][4] ^ 0x55]))
        tx.open_tx_pipe(early[case["pipe"]])
    for r, lite in ((tx, lite_t), (rx, lite_r)):
        r.channel = case["ch"]
        r.data_rate = case["rate"]
        r.address_length = case["aw"]
        if not lite:
            r.crc = case["crc"]
            r.auto_ack = bool(case["aa"])
            r.allow_ask_no_ack = True
        r.ard = 250 * (case["ardc"] + 1)
        r.arc = 3
    dyn, L = bool(case["dyn"]), case["plen"]
    tx.dynamic_payloads = dyn
    rx.dynamic_payloads = dyn
    if not dyn:
        tx.payload_length = L
        if case.get("perpipe") and not lite_r:
            lens = list(case["perpipe"])
            lens[case["pipe"]] = L
            if case.get("perpipe_order"):
                for p in case["perpipe_order"]:  # one pipe at a time, in any order
                    rx.set_payload_length(lens[p], p)
            else:
                rx.payload_length = lens
        else:
            rx.payload_length = L
    if case.get("dynmask") and not lite_t and not lite_r:
        # per-pipe payload modes: the transmitter's mode is that of its pipe 0, the receiver's that of the receiving
        # pipe; the other pipes are set differently
        mt, mr = case["dynmask"]
        form = {"list": lambda m: [bool(m >> i & 1) for i in range(6)], "tuple": lambda m: tuple(bool(m >> i & 1) for i in range(6)),
                "int": lambda m: m}[case.get("dynform", "int")]  # the documented forms of the same per-pipe setting
        mt, mr = (mt & 0x3E) | int(dyn), (mr & ~(1 << case["pipe"]) & 0x3F) | (int(dyn) << case["pipe"])
        if case.get("dynform", "int") != "int":
            tx.dynamic_payloads = ~mt & 0x3F  # every pipe stood the other way before, so each element of the sequence matters
            rx.dynamic_payloads = ~mr & 0x3F
        tx.dynamic_payloads = form(mt)
        rx.dynamic_payloads = form(mr)
    if case.get("ackmode"):
        # ACK payloads enabled on both ends AFTER the payload mode was chosen: pipe 0 becomes dynamic (documented)
        tx.ack = True
        rx.ack = True
    addrs = pipe_addresses(case)
    if not pipes_first:
        for p in range(6):
            rx.open_rx_pipe(p, addrs[p])
    rx.listen = True
    tx.open_tx_pipe(addrs[case["pipe"]])  # (again in the pipes-first order: auto-ack may have been switched on since, and
    tx.listen = False                     # pipe 0 follows the TX address only at open_tx_pipe() time)
    return addrs


def expected_payload(buf, dyn, L, lite_tx):
    """None = must be rejected with ValueError; "either" = not judged (lite, static, 0 or >32 bytes)"""
    if lite_tx and not dyn and not 1 <= len(buf) <= 32:
        return "either"
    if dyn:
        if not 1 <= len(buf) <= 32:
            return None
    if dyn:
        return bytes(buf)
    if len(buf) < L:
        return bytes(buf) + b"\0" * (L - len(buf))
    return bytes(buf[:L])


def run_threaded(case, P):
    """lists longer than the 3-level RX FIFO: the peer's application drains in its own task while send() runs"""
    res = Result()
    lk = Link(case.get("drv", "full"), case.get("peer", "full"), mcu=case.get("mcu"), plus=case.get("plus", True), warm=case.get("warm"), shared_spi=False)  # two tasks = two MCUs: they cannot share a host's spidev object
    res.label("plus-chips" if case.get("plus", True) else "nonplus-chips", "cold-chips" if case.get("warm") is None else "warm-chips", "own-spidev")
    sim, T, R, tx, rx = lk.sim, lk.T, lk.R, lk.tx, lk.rx
    configure(case, lk)
    dyn, L, pipe = bool(case["dyn"]) or bool(case.get("ackmode")), case["plen"], case["pipe"]
    bufs = [unhex(h) for h, _t in case["calls"][0]["items"]]
    exps = [expected_payload(b, dyn, L, lk.tx_kind == "lite") for b in bufs]
    if any(e is None or e == "either" for e in exps):
        res.inconclusive = "threaded variant uses valid lengths only"
        return res
    got = []
    out = {}
    from vlib.sim.core import Mcu

    def receiver():
        while True:
            if rx.available():
                p = rx.pipe
                n = rx.any()
                d = rx.read()
                got.append((p, n, None if d is None else bytes(d)))
            else:
                sim.wait_irq(R, 5 * MS, 40 * US)

    def main():
        sim.spawn("rx", receiver, mcu=Mcu.from_dict(case.get("rx_mcu") or {"spi": 20}))
        sim.advance(1 * MS)
        objs = [bytearray(b) if t == "bytearray" else bytes(b) for b, (_h, t) in zip(bufs, case["calls"][0]["items"])]
        out["ret"] = tx.send(objs, force_retry=case.get("force_retry", 2))
        sim.advance(20 * MS)
        out["same"] = all(bytes(o) == b for o, b in zip(objs, bufs))

    sim.horizon = 30_000 * MS
    try:
        sim.run_main(main)
    except SimHorizon:
        res.fail(P + "/send-does-not-terminate", "threaded list send")
        return res
    except Exception as e:  # noqa: BLE001
        res.fail(exc_signature(P + "/raises", e), repr(e))
        return res
    want = [(pipe, len(e), e) for e in exps]
    delivered = [w for w, r in zip(want, out.get("ret") or []) if r is True]
    if out.get("ret") != [True] * len(bufs) and case["aa"]:
        res.label("list-item-failed")  # a slow receiver can make an item fail; then only reported-delivered items are demanded
    if case["aa"]:
        if [g[2] for g in got] != [w[2] for w in (want if out.get("ret") == [True] * len(bufs) else delivered)]:
            res.fail(P + "/received-payloads-differ/long-list", "peer read %d payloads %r..., send() reported %r for %d items" % (
                len(got), [g[2] for g in got][:3], out.get("ret"), len(bufs)))
        elif any(g[0] != pipe for g in got):
            res.fail(P + "/wrong-pipe", "peer saw pipes %r" % sorted({g[0] for g in got}))
        elif any(g[1] != len(g[2]) for g in got):
            res.fail(P + "/wrong-length-reported", "any() disagreed with the payload length")
    else:
        # no acknowledgements: delivery is not guaranteed to a busy receiver; what arrives must be a subsequence, in order
        it = iter([w[2] for w in want])
        if not all(any(x == g[2] for x in it) for g in got):
            res.fail(P + "/received-payloads-differ/long-list", "peer read payloads that are not an in-order subsequence of what was sent")
    if not out.get("same", True):
        res.fail(P + "/caller-buffer-modified", "a list element was modified")
    if len(got) >= 4:
        res.nontrivial = True
    res.label("threaded", "list%d" % len(bufs))
    return res


def run_ack_roleswap(case, P):
    """ACK payloads on both ends: the receiver pre-loads k ACK payloads, the transmitter sends m < k payloads (each answered
    with one of them), then the roles are swapped and the former receiver sends an ordinary payload: the former
    transmitter must read exactly that payload - the unused ACK payloads are not data"""
    res = Result()
    lk = Link(case.get("drv", "full"), case.get("peer", "full"), mcu=case.get("mcu"), plus=case.get("plus", True), warm=case.get("warm"), shared_spi=bool(case.get("shared_spi")))
    res.label("plus-chips" if case.get("plus", True) else "nonplus-chips", "cold-chips" if case.get("warm") is None else "warm-chips", "shared-spidev" if case.get("shared_spi") else "own-spidev")
    sim, T, R, tx, rx = lk.sim, lk.T, lk.R, lk.tx, lk.rx
    a = unhex(case["a0"])
    for r in (tx, rx):
        r.channel = 76
        r.ack = True
        r.arc = 3
    rx.open_rx_pipe(0, a)
    rx.listen = True
    tx.open_tx_pipe(a)
    tx.listen = False
    sim.advance(500 * US)
    acks = [bytes([0xA0 + i]) * (1 + i) for i in range(case["k"])]
    sim.horizon = sim.now + 2000 * MS
    try:
        for ap in acks:
            rx.load_ack(ap, 0)
        for i in range(case["m"]):
            got = tx.send(bytes([0x10 + i]) * 3)
            if not isinstance(got, (bytes, bytearray)) or bytes(got) != acks[i]:
                res.fail(P + "/ack-payload-result", "send() %d returned %r, the peer had loaded %r" % (i, got, acks[i]))
            sim.advance(300 * US)
            if not rx.available() or bytes(rx.read()) != bytes([0x10 + i]) * 3:
                res.fail(P + "/received-payloads-differ", "payload %d did not arrive with ACK payloads enabled" % i)
        # role swap
        tx.open_rx_pipe(0, a)
        tx.listen = True
        rx.listen = False
        rx.open_tx_pipe(a)
        sim.advance(300 * US)
        reply = unhex(case["reply"])
        r2 = rx.send(reply)
        sim.advance(500 * US)
        back = []
        for _ in range(5):
            if not tx.available():
                break
            back.append(bytes(tx.read()))
        if back != [reply]:
            res.fail(P + "/unused-ack-payloads-sent-as-data", "after the role swap the former receiver sent %r; the other end read %r (%d of %d pre-loaded "
                     "ACK payloads had been used; send() returned %r)" % (reply, back, case["m"], case["k"], r2))
    except SimHorizon:
        res.fail(P + "/send-does-not-terminate", "ACK-payload role swap")
    except Exception as e:  # noqa: BLE001
        res.fail(exc_signature(P + "/raises", e), repr(e))
    res.nontrivial = case["m"] < case["k"]
    res.label("ack-payload-role-swap")
    return res


def run_write_burst(case, P):
    """the non-blocking entry point used the way its documentation describes: several write(buf, write_only=True) calls
    fill the TX FIFO, then the application raises CE; every payload for which write() returned True must come out of the
    peer's read(), in order, and the first three writes into an empty FIFO must be accepted; a second burst follows"""
    res = Result()
    lk = Link(case.get("drv", "full"), case.get("peer", "full"), mcu=case.get("mcu"), plus=case.get("plus", True), warm=case.get("warm"), shared_spi=bool(case.get("shared_spi")))
    res.label("plus-chips" if case.get("plus", True) else "nonplus-chips", "cold-chips" if case.get("warm") is None else "warm-chips", "shared-spidev" if case.get("shared_spi") else "own-spidev")
    sim, T, R, tx, rx = lk.sim, lk.T, lk.R, lk.tx, lk.rx
    a = unhex(case["a0"])
    dyn, L = case["dyn"], case["L"]
    for r in (tx, rx):
        r.channel = 76
        r.dynamic_payloads = dyn
        r.payload_length = L
        if not case["aa"]:
            r.auto_ack = False
    rx.open_rx_pipe(1, a)
    rx.listen = True
    tx.open_tx_pipe(a)
    tx.listen = False
    sim.advance(500 * US)
    sim.horizon = sim.now + 2000 * MS
    try:
        if case.get("failed_first"):
            # a send() that fails (peer not listening), two more payloads queued behind it, the peer comes back, resend():
            # the failed payload is acknowledged (True) and, CE staying up, the queued ones follow - all three arrive in order
            rx.listen = False
            sim.advance(300 * US)
            p0 = b"\x30" * 4
            r0 = tx.send(p0)
            q = [b"\x31" * 5, b"\x32" * 6]
            rq = [tx.write(b, write_only=True) for b in q]
            rx.listen = True
            sim.advance(300 * US)
            r1 = tx.resend()
            tx.ce_pin = True
            sim.advance(25 * MS)
            tx.ce_pin = False
            got = []
            for _ in range(4):
                if not rx.available():
                    break
                got.append(bytes(rx.read()))
            want = [expected_payload(b, dyn, L, False) for b in [p0] + q]
            if r0 is not False or rq != [True, True]:
                res.fail(P + "/failed-send-then-queue", "send() to a deaf peer returned %r, two write(write_only=True) behind it %r" % (r0, rq))
            elif r1 is not True:
                res.fail(P + "/resend-result/full-fifo", "resend() with the failed payload and two queued ones in the TX FIFO returned %r, peer listening" % (r1,))
            elif got != want:
                res.fail(P + "/received-payloads-differ", "failed send, two queued writes, resend(): peer read %r, expected %r" % (got, want))
            tx.flush_tx()
            tx.clear_status_flags()
            res.label("resend-with-full-fifo")
        for rnd, k in enumerate(case["bursts"]):
            accepted = []
            for i in range(k):
                pl = bytes([0x41 + 8 * rnd + i]) * case["lens"][(rnd * 7 + i) % len(case["lens"])]
                r = tx.write(pl, write_only=True)
                if r:
                    accepted.append(expected_payload(pl, dyn, L, False))
                elif i < 3:
                    res.fail(P + "/write-refused-with-room", "burst %d: write() number %d into an empty TX FIFO returned %r" % (rnd, i + 1, r))
            tx.ce_pin = True
            sim.advance(25 * MS)
            tx.ce_pin = False
            got = []
            for _ in range(4):
                if not rx.available():
                    break
                got.append(bytes(rx.read()))
            if got != accepted:
                res.fail(P + "/received-payloads-differ", "burst %d: %d write(write_only=True) calls, accepted %r; CE raised; peer read %r" % (
                    rnd, k, accepted, got))
            tx.flush_tx()
            tx.clear_status_flags()
    except SimHorizon:
        res.fail(P + "/send-does-not-terminate", "write burst")
    except Exception as e:  # noqa: BLE001
        res.fail(exc_signature(P + "/raises", e), repr(e))
    for chip in (T, R):
        if chip.illegal:
            res.fail(P + "/illegal-spi", "%s: %s" % (chip.name, chip.illegal[0]))
    res.nontrivial = max(case["bursts"]) >= 2
    res.label("write-burst", "write-burst-overfull" if max(case["bursts"]) > 3 else "write-burst-fits")
    return res


def run_case(case, prefix=None):
    P = prefix or PREFIX
    if case.get("burst"):
        return run_write_burst(case, P)
    if case.get("threaded"):
        return run_threaded(case, P)
    if case.get("ack_roleswap"):
        return run_ack_roleswap(case, P)
    res = Result()
    lk = Link(case.get("drv", "full"), case.get("peer", "full"), mcu=case.get("mcu"), plus=case.get("plus", True), warm=case.get("warm"), shared_spi=bool(case.get("shared_spi")))
    res.label("plus-chips" if case.get("plus", True) else "nonplus-chips", "cold-chips" if case.get("warm") is None else "warm-chips", "shared-spidev" if case.get("shared_spi") else "own-spidev")
    sim, T, R, tx, rx = lk.sim, lk.T, lk.R, lk.tx, lk.rx
    lite_t = lk.tx_kind == "lite"
    configure(case, lk)
    sim.advance(500 * US)
    dyn, L, pipe, ana = bool(case["dyn"]) or bool(case.get("ackmode")), case["plen"], case["pipe"], bool(case["ana"])
    delivered_any = False
    sim.horizon = sim.now + 2000 * MS
    addrs = pipe_addresses(case)
    pp = case.get("pingpong")
    if pp and not lite_t and lk.rx_kind != "lite" and not case.get("perpipe"):
        # the peer answers every send(): both radios keep switching between RX and TX, the transmitter
        # listens for the answer on its pipe pp["pipe"]
        raddr = unhex(pp["addr"])
        if pp["pipe"] >= 2:
            tx.open_rx_pipe(1, bytes([raddr[0] ^ 0x5A]) + raddr[1:])
        tx.open_rx_pipe(pp["pipe"], raddr)
        tx.open_tx_pipe(addrs[case["pipe"]])  # documented: (re-)open the TX pipe after pipe 0 was given an RX address
    else:
        pp = None
    late_pending = None  # (pipe, payload) of an answer the first radio has received but not read yet
    failed_pending = False  # a payload that failed while the peer was deaf may still sit in the TX FIFO
    for ci, call in enumerate(case["calls"]):
        objs, befores, exps = [], [], []
        for h, typ in call["items"]:
            raw = unhex(h)
            objs.append(bytearray(raw) if typ == "bytearray" else bytes(raw))
            befores.append(raw)
            exps.append(expected_payload(raw, dyn, L, lite_t))
        is_list = call["form"] not in ("single", "write")
        if "either" in exps:
            res.label("lite-static-unjudged-length")
            continue
        arg = objs[0] if not is_list else (list(objs) if call["form"] == "list" else tuple(objs))
        deaf = bool(call.get("deaf")) and not pp and call["form"] != "write"
        if call["form"] == "write" and failed_pending:
            # write() is the non-blocking entry point: managing a failed payload and the flags is the caller's job there
            tx.flush_tx()
            tx.clear_status_flags()
        failed_pending = deaf
        if deaf:
            rx.listen = False  # the peer's application stops listening for the duration of this call: nothing can arrive
            sim.advance(300 * US)
        n_trace = len(T.trace)
        n_log0 = len(lk.med.log)
        raised = None
        result = None
        try:
            if call["form"] == "write":
                # the non-blocking entry point: load + start, then let the transmission finish
                result = tx.write(arg, ask_no_ack=ana) if ana else tx.write(arg)
                sim.advance(6 * MS)
                tx.update()
                res.label("write()")
            else:
                if late_pending is not None:
                    # the answer to the previous call is still unread in this radio's RX FIFO: send_only=True is the
                    # documented way to transmit without touching it
                    result = tx.send(arg, ask_no_ack=ana, send_only=True)
                else:
                    result = tx.send(arg, ask_no_ack=ana) if ana else tx.send(arg)
        except ValueError as e:
            raised = e
        except SimHorizon:
            res.fail(P + "/send-does-not-terminate", "send() call %d" % ci)
            break
        except Exception as e:  # noqa: BLE001
            res.fail(exc_signature(P + "/raises", e), repr(e))
            break
        # what should have gone out: items up to the first one that must be rejected
        upto = len(exps)
        for k, e in enumerate(exps):
            if e is None:
                upto = k
                break
        must_raise = upto < len(exps)
        sent_exp = exps[:upto]
        loads = [(c, d) for (_t, c, d) in T.trace[n_trace:] if c in (0xA0, 0xB0)]
        if must_raise:
            res.label("invalid-length")
            if raised is None:
                res.fail(P + "/invalid-length-accepted", "payload of %d bytes accepted in %s mode (returned %r)" % (
                    len(befores[upto]), "dynamic" if dyn else "static", result))
        elif raised is not None:
            res.fail(exc_signature(P + "/valid-payload-rejected", raised), "lengths %r: %r" % ([len(b) for b in befores], raised))
        if [d for _c, d in loads] != sent_exp[:len(loads)] or (raised is None and len(loads) != len(sent_exp)) or \
                len(loads) > len(sent_exp):
            res.fail(P + "/spi-payload-differs", "W_TX_PAYLOAD data %r, expected %r" % ([d for _c, d in loads], sent_exp))
        if any((c == 0xB0) != ana for c, _d in loads):
            res.fail(P + "/wrong-write-command", "commands %r with ask_no_ack=%r" % ([hex(c) for c, _ in loads], ana))
        for o, b in zip(objs, befores):
            if bytes(o) != b:
                res.fail(P + "/caller-buffer-modified", "caller's %s changed from %d to %d bytes" % (
                    type(o).__name__, len(b), len(o)))
        if deaf:
            rx.listen = True
            sim.advance(300 * US)
            res.label("peer-deaf-call")
            if raised is None and not must_raise:
                lost = bool(case["aa"]) and not ana
                want_res = ([not lost] * len(exps)) if is_list else (not lost)
                if call["form"] != "write" and result != want_res:
                    res.fail(P + "/send-result", "send() returned %r while the peer was not listening (auto-ack %s)" % (result, "on" if lost else "off / not requested"))
            if R.rxf:
                res.fail(P + "/received-while-not-listening", "%d payloads in the peer's FIFO" % len(R.rxf))
            if raised is not None:
                tx.flush_tx()
                tx.clear_status_flags()
            continue
        if raised is None and not must_raise:
            okres = [True] * len(exps) if is_list else True
            if result != okres or (not is_list and result is not True):
                res.fail(P + "/send-result", "send() returned %r on a loss-free link" % (result,))
        # drain the peer through its public API
        sim.advance(300 * US)
        got = []
        for _ in range(8):
            if not rx.available():
                break
            p = rx.pipe
            n = rx.any()
            data = rx.read()
            got.append((p, n, None if data is None else bytes(data)))
        want = [(pipe, len(e), e) for e in sent_exp]
        if got != want and any(c.get("deaf") for c in case["calls"][:ci]):
            # after packets were lost to a deaf peer the 2-bit packet ID can come round: a packet with the same ID and the
            # same bytes as the last one the peer took is a re-transmission to its radio and is dropped (hardware rule)
            log = lk.med.log
            mine = [e for e in log[n_log0:] if not e["ack"] and e["src"] == "T"]
            prev = [e for e in log[:n_log0] if not e["ack"] and "R" in e["rx"]]
            last = (prev[-1]["pid"], prev[-1]["pl"]) if prev else None
            groups = []
            for e in mine:
                if groups and (groups[-1][0]["pid"], groups[-1][0]["pl"]) == (e["pid"], e["pl"]):
                    groups[-1].append(e)
                else:
                    groups.append([e])
            if len(groups) == len(want):
                kept = []
                for w, g in zip(want, groups):
                    key = (g[0]["pid"], g[0]["pl"])
                    if last == key and not any("R" in e["rx"] for e in g):
                        res.label("packet-id-alias-after-losses")
                        continue
                    kept.append(w)
                    last = key
                want = kept
        if got != want:
            if [g[2] for g in got] != [w[2] for w in want]:
                res.fail(P + "/received-payloads-differ", "peer read %r, expected %r" % ([g[2] for g in got], [w[2] for w in want]))
            elif [g[0] for g in got] != [w[0] for w in want]:
                res.fail(P + "/wrong-pipe", "peer saw pipes %r, expected pipe %d" % ([g[0] for g in got], pipe))
            else:
                res.fail(P + "/wrong-length-reported", "any() gave %r, expected %r" % ([g[1] for g in got], [w[1] for w in want]))
        if R.rxf:
            res.fail(P + "/peer-fifo-not-empty-after-drain", "%d payloads left" % len(R.rxf))
        if sent_exp and got:
            delivered_any = True
            if (not dyn and any(len(b) != L for b in befores[:upto])) or pipe >= 2 or is_list or \
                    any(t == "bytearray" for _h, t in call["items"]):
                res.nontrivial = True
        if raised is not None:
            # the driver's cached status is stale after an exception: let the next call start clean
            tx.flush_tx()
            tx.clear_status_flags()
        if late_pending is not None:
            back = []
            for _ in range(4):
                if not tx.available():
                    break
                back.append((tx.pipe, None if (d := tx.read()) is None else bytes(d)))
            if back != [late_pending]:
                res.fail(P + "/unread-answer-lost", "the answer to the previous call was left in the RX FIFO and the next send() used send_only=True; "
                         "afterwards the radio read %r, expected %r" % (back, [late_pending]))
            res.label("answer-read-after-the-next-send")
            late_pending = None
        if pp:
            res.label("pingpong")
            reply = unhex(pp["reply"])
            exp_reply = expected_payload(reply, dyn, L, False)
            tx.listen = True
            rx.listen = False
            rx.open_tx_pipe(raddr)
            sim.advance(300 * US)
            try:
                r2 = rx.send(reply)
            except SimHorizon:
                res.fail(P + "/send-does-not-terminate", "reply send()")
                break
            except Exception as e:  # noqa: BLE001 - the reply has a valid length for the mode
                res.fail(exc_signature(P + "/valid-payload-rejected", e), "reply of %d bytes: %r" % (len(reply), e))
                break
            sim.advance(300 * US)
            nxt = case["calls"][ci + 1] if ci + 1 < len(case["calls"]) else None
            if pp.get("late") and nxt is not None and nxt["form"] != "write" and not nxt.get("deaf") and len(T.rxf) == 1:
                late_pending = (pp["pipe"], exp_reply)
                if case["aa"] and r2 is not True:
                    res.fail(P + "/pingpong-reply-result", "answer delivered but send() returned %r" % (r2,))
                rx.listen = True
                tx.listen = False
                tx.open_tx_pipe(addrs[pipe])
                sim.advance(300 * US)
                continue
            back = []
            for _ in range(4):
                if not tx.available():
                    break
                back.append((tx.pipe, None if (d := tx.read()) is None else bytes(d)))
            if back != [(pp["pipe"], exp_reply)]:
                res.fail(P + "/pingpong-reply-not-received", "after transmitting, the first radio listened on pipe %d for the answer and read %r, "
                         "expected %r (answering send() returned %r)" % (pp["pipe"], back, exp_reply, r2))
            elif case["aa"] and r2 is not True:
                res.fail(P + "/pingpong-reply-result", "answer delivered but send() returned %r" % (r2,))
            rx.listen = True
            tx.listen = False
            tx.open_tx_pipe(addrs[pipe])
            sim.advance(300 * US)
    for chip in (T, R):
        if chip.illegal:
            res.fail(P + "/illegal-spi", "%s: %s" % (chip.name, chip.illegal[0]))
    res.label("dynamic" if dyn else "static", "pipe%d" % pipe, "aw%d" % case["aw"], "crc%d" % case["crc"],
              "rate%d" % case["rate"], "aa" if case["aa"] else "noaa")
    if delivered_any:
        res.label("delivered")
        for k in ("pre", "dynmask", "ackmode"):
            if case.get(k):
                res.label("delivered-with-" + k)
                res.nontrivial = True
    return res


def strategy(drv="full", peer="full"):
    from hypothesis import strategies as st
    lite = drv == "lite" or peer == "lite"

    @st.composite
    def case(draw):
        aw = draw(st.sampled_from([3, 4, 5]))
        rate = draw(st.sampled_from([1, 2, 250]))
        crc = 2 if lite else draw(st.sampled_from([0, 1, 2, 2]))
        aa = True if lite else draw(st.sampled_from([True, True, False]))
        crc_eff = crc if (crc or not aa) else 1
        if aa and crc == 0:
            crc_eff = 1
        a1 = draw(st.binary(min_size=5, max_size=5))
        lsb = draw(st.lists(st.integers(0, 255).filter(lambda b: b != a1[0]), min_size=4, max_size=4, unique=True))
        a0 = bytearray(draw(st.binary(min_size=5, max_size=5)))
        a0[1] = a1[1] ^ draw(st.integers(1, 255))
        dyn = draw(st.booleans())
        L = draw(st.integers(1, 32))
        ardmin = esb.min_ard_code(rate, aw, crc_eff, 0)
        ardc = draw(st.integers(ardmin, 15))

        def buf():
            n = draw(st.one_of(st.integers(0, 40), st.sampled_from([0, 1, 31, 32, 33, L, max(0, L - 1), L + 1])))
            body = draw(st.binary(min_size=n, max_size=n))
            if n and draw(st.integers(0, 3)) == 0:
                k = draw(st.integers(1, n))
                body = body[:n - k] + bytes([draw(st.sampled_from([0, 0xFF]))]) * k
            return [body.hex(), draw(st.sampled_from(["bytes", "bytearray"]))]

        calls = []
        for _ in range(draw(st.integers(1, 3))):
            form = draw(st.sampled_from(["single", "single", "list", "tuple", "write"]))
            n = 1 if form in ("single", "write") else draw(st.integers(1, 3))
            calls.append({"form": form, "items": [buf() for _ in range(n)]})
            if draw(st.integers(0, 5)) == 0:
                calls[-1]["deaf"] = True
        c = {"drv": drv, "peer": peer, "ch": draw(st.one_of(st.integers(0, 125), st.sampled_from([0, 76, 125]))),
             "rate": rate, "crc": crc, "aw": aw, "ardc": ardc, "aa": aa, "ana": draw(st.booleans()),
             "pipe": draw(st.integers(0, 5)), "a0": bytes(a0).hex(), "a1": a1.hex(), "lsb": lsb, "dyn": dyn, "plen": L,
             "calls": calls,
             "mcu": {"spi": draw(st.sampled_from([8, 20, 100])), "jit": draw(st.sampled_from([0, 30])),
                     "seed": draw(st.integers(0, 999))}}
        if not dyn and not lite and draw(st.booleans()):
            c["perpipe"] = [draw(st.integers(1, 32)) for _ in range(6)]
            if draw(st.booleans()):
                c["perpipe_order"] = draw(st.permutations(list(range(6))))
        if draw(st.integers(0, 2)) == 0:
            bits = st.one_of(st.booleans(), st.integers(0, 0x3F))
            n132 = st.integers(1, 32)
            c["pre"] = draw(st.lists(st.one_of(
                st.tuples(st.just("dynamic_payloads"), bits), st.tuples(st.just("payload_length"), n132),
                st.tuples(st.just("ack"), st.booleans()), st.tuples(st.just("auto_ack"), bits),
                st.tuples(st.just("set_auto_ack"), st.booleans(), st.integers(0, 5)),
                st.tuples(st.just("set_dynamic_payloads"), st.booleans(), st.integers(0, 5)),
                st.tuples(st.just("set_payload_length"), n132, st.integers(0, 5)),
                st.tuples(st.just("data_rate"), st.sampled_from([1, 2, 250])), st.tuples(st.just("channel"), st.integers(0, 125)),
                st.tuples(st.just("address_length"), st.integers(3, 5)), st.tuples(st.just("ard"), st.sampled_from([250, 1500, 4000])),
                st.tuples(st.just("arc"), st.integers(0, 15)), st.tuples(st.just("pa_level"), st.sampled_from([-18, -12, -6, 0])),
                st.tuples(st.just("crc"), st.integers(0, 2))).map(list), min_size=1, max_size=4))
            c["pre_side"] = draw(st.sampled_from(["both", "tx", "rx"]))
        if not lite and draw(st.integers(0, 3)) == 0:
            c["dynmask"] = [draw(st.integers(0, 0x3F)), draw(st.integers(0, 0x3F))]
            c["dynform"] = draw(st.sampled_from(["int", "list", "tuple"]))
        if aa and "dynmask" not in c and draw(st.integers(0, 4)) == 0:
            c["ackmode"] = True
            c["pipe"] = 0
        if not lite and draw(st.integers(0, 3)) == 0:
            c["order"] = "pipes-first"
        # (the reverse direction of a ping-pong would need the mirrored per-pipe modes: not combined)
        if not lite and "perpipe" not in c and "dynmask" not in c and "ackmode" not in c and "order" not in c and draw(st.integers(0, 1)) == 0:
            ra = bytearray(draw(st.binary(min_size=5, max_size=5)))
            ra[1] = a1[1] ^ a0[1] ^ draw(st.integers(1, 255)) if (a1[1] ^ a0[1]) else a1[1] ^ 0x33
            if ra[1] in (a0[1], a1[1]):
                ra[1] ^= 0x81
            n = draw(st.integers(1, 32))
            c["pingpong"] = {"pipe": draw(st.integers(0, 5)), "addr": bytes(ra).hex(), "reply": draw(st.binary(min_size=n, max_size=n)).hex(),
                             "late": draw(st.booleans())}
        return c

    return case()


def threaded_strategy(drv="full", peer="full"):
    from hypothesis import strategies as st

    @st.composite
    def case(draw):
        c = draw(strategy(drv, peer))
        c.pop("pingpong", None)
        c.pop("perpipe", None)
        L = c["plen"]
        n = draw(st.integers(4, 12))
        items = []
        for i in range(n):
            ln = draw(st.integers(1, 32))
            body = bytes([i]) + draw(st.binary(min_size=ln - 1, max_size=ln - 1))
            items.append([body.hex(), draw(st.sampled_from(["bytes", "bytearray"]))])
        c["calls"] = [{"form": "list", "items": items}]
        c["threaded"] = True
        c["ana"] = False
        c["rx_mcu"] = {"spi": draw(st.sampled_from([8, 20, 50, 100])), "jit": draw(st.sampled_from([0, 30])), "seed": draw(st.integers(0, 99))}
        c["force_retry"] = draw(st.integers(1, 3))
        return c

    return case()


def _ack_roleswap_cases(drv="full", peer="full"):
    def gen():
        for k in (1, 2, 3):
            for m in range(0, k + 1):
                for reply in ("5a", "c3" * 32, "0102030405"):
                    for spi in (8, 100):
                        yield {"ack_roleswap": True, "drv": drv, "peer": peer, "k": k, "m": m, "reply": reply, "a0": "a1b2c3d4e5",
                               "mcu": {"spi": spi, "jit": 0, "seed": k}}
    return gen


def _burst_cases(drv="full", peer="full"):
    def gen():
        for b1 in range(1, 6):
            for b2 in (1, 3, 4):
                for aa in ((True, False) if "lite" not in (drv, peer) else (True,)):  # rf24_lite has no auto_ack switch
                    for dyn, L in ((True, 32), (False, 32), (False, 5)):
                        for spi in (8, 100):
                            yield {"burst": True, "drv": drv, "peer": peer, "bursts": [b1, b2], "aa": aa, "dyn": dyn, "L": L, "a0": "a1b2c3d4e5",
                                   "lens": [1, 5, 32, 7, 13], "mcu": {"spi": spi, "jit": 0, "seed": b1}}
                            if aa and b1 == 1:
                                yield {"burst": True, "drv": drv, "peer": peer, "bursts": [b2], "aa": aa, "dyn": dyn, "L": L, "a0": "a1b2c3d4e5",
                                       "lens": [1, 5, 32, 7, 13], "mcu": {"spi": spi, "jit": 0, "seed": b1}, "failed_first": True}
    return gen


def _parts(tier):
    if tier == "quick":
        return [Part("ack-payload-role-swap", "enum", _ack_roleswap_cases(), exhaustive=True),
                Part("write-only-bursts", "enum", _burst_cases(), exhaustive=True), Part("generated", "gen", strategy, n=3000), Part("long-lists-threaded-receiver", "gen", threaded_strategy, n=400)]
    return [Part("ack-payload-role-swap", "enum", _ack_roleswap_cases(), exhaustive=True), Part("write-only-bursts", "enum", _burst_cases(), exhaustive=True),
            Part("generated", "gen", strategy, n=150000), Part("long-lists-threaded-receiver", "gen", threaded_strategy, n=5000)]


def parts(tier):
    # the chip variant (plus / non-plus) is one more dimension of every case (linkutil.with_plus)
    return [with_plus(p) for p in _parts(tier)]
