"""C13 - NETWORK_ACK: awaited only when needed, sent once, believed only if received.

One single-frame message per case over a route of 1..8 hops, with an optional injected fault
(all attempts of the data frame at hop i dropped, or all attempts of the NETWORK_ACK relay at
hop j dropped).  Oracle from the medium's ground-truth log: who ORIGINATED type-193 frames
(transmitted more of them than it received), addressed to whom; whether a NETWORK_ACK for the
origin reached the origin's chip inside [t_accept, t_accept + route_timeout]; the virtual
duration of write()."""
from vlib.harness.runner import Result, Part, exc_signature
from vlib.ref import netaddr, frag as rfrag
from vlib.sim.core import MS, US, SimHorizon
from vlib.checks.netutil import with_id0, Net, air_frames

PROPERTY = "C13"
LEVEL = "fault_enumeration"
RULE = ("a case = a route of 1..8 hops inside a line/tree topology (plus drawn bystander nodes), one message of 0..24 bytes of "
        "any type 0..255 except those the network layer consumes or rewrites (128, 130, 131, 148-150, 194, 195), tx_timeout "
        "5..50 ms, route_timeout 20..200 ms, per-node MCU timing models, and a fault: none, or 'every attempt of the data frame "
        "sent by hop i is lost', or 'every attempt of the NETWORK_ACK sent by hop j is lost'.  The enumerated part covers every "
        "(route length, fault position, type class) combination; Hypothesis draws the rest.  non-trivial = acknowledged type "
        "over >= 2 hops, or a fault injected; distinct = SHA-1 of the case JSON")
ASSUMPTIONS = ["an arrival of the NETWORK_ACK within +-(2 ms + 40 SPI transactions) of the deadline is ambiguous and not judged",
               "single-frame messages only, as the property states (fragment types lie in the ACK range by design)"]
CONSUMED = {128, 130, 131, 148, 149, 150, 194, 195}
ROUTES = {
    1: (0o1, 0), 2: (0o1, 0o2), 3: (0o11, 0o2), 4: (0o11, 0o22), 5: (0o111, 0o22), 6: (0o111, 0o222), 7: (0o1111, 0o222), 8: (0o1111, 0o2222),
}


def hdr(pl):
    return rfrag.unpack_header(pl) if len(pl) >= 8 else None


class FrameFault:
    """drop every attempt of the frames a given node transmits that match (is NETWORK_ACK?)"""

    def __init__(self, node_name, want_ack_frame, origin, first_k=None):
        self.node, self.want_ack, self.origin, self.first_k = node_name, want_ack_frame, origin, first_k
        self.dropped = 0

    def on_tx(self, pkt):
        if pkt.is_ack or pkt.src.name != self.node:
            return
        h = hdr(pkt.payload)
        if h is None:
            return
        is_netack = h[3] == 193 and h[1] == self.origin
        if is_netack == self.want_ack and (self.first_k is None or self.dropped < self.first_k):
            pkt.drop = True
            self.dropped += 1


def run_case(case):
    res = Result()
    src, dst, typ = case["src"], case["dst"], case["type"]
    msg = bytes.fromhex(case["msg"])
    path = [src] + netaddr.tree_path(src, dst)
    hops = len(path) - 1
    acked_type = 64 < typ < 192
    needs = acked_type and hops >= 2
    net = Net(horizon_ms=120_000, id0=case.get("id0", 0))
    fault = case.get("fault")
    fobj = None
    if fault:
        sender = path[fault[1]] if fault[0] in ("data", "data-first-k") else path[len(path) - 2 - fault[1]]
        fobj = FrameFault(str(sender), fault[0] == "ack", src, fault[2] if fault[0] == "data-first-k" else None)
        net.med.fault = fobj
    out = {}
    slow = 0

    def main():
        nonlocal slow
        for n in case["nodes"]:
            c = net.add(n["addr"], n.get("kind", "net"), n["addr"], mcu=n.get("mcu"))
            c.node.tx_timeout = case["tx_timeout"]
            c.node.route_timeout = case["route_timeout"]
            if n.get("mc_off"):
                c.node.allow_multicast = False
                c.node.node_address = n["addr"]
            if n.get("mc_level") is not None and not n.get("mc_off"):
                c.node.multicast_level = n["mc_level"]  # which level's multicasts a node listens to must not change routing
            if n["addr"] == src:
                slow = c.mcu.spi_base
        net.start()
        net.sim.advance(3 * MS)
        L = net.L

        held = {}

        def do(node):
            if "frame" in held:
                frame = held["frame"]  # the frame object of the earlier write(s), handed to write() again as it is
            else:
                h = L.Header(dst, typ)
                if case.get("stale_from") is not None:
                    h.from_node = case["stale_from"]  # a header object used before by another node / taken from a received frame
                if case.get("str_type"):
                    h.message_type = chr(typ)  # documented: the attribute may be set using a one-character str
                frame = L.Frame(h, msg)
            if case.get("again"):
                held["frame"] = frame
            t0 = net.sim.now
            r = node.write(frame)
            return r, t0, net.sim.now

        for _ in range(case.get("again") or 0):
            # history: the application has written this very frame object before (a retry after a result it did not like, or
            # one header object used for message after message - the frame id is given at construction): every write is a
            # transmission of its own and is acknowledged on its own.  Only the last one is judged, on a log of its own.
            net.call(src, do, timeout_ms=20000)
            net.settle(3000)
            net.drain_queues()
            del net.med.log[:]
            res.label("same-frame-object-written-before")

        un = case.get("unread")
        if un:
            # the sender has not read its mail: `count` plain frames from another node sit in its queue (which holds 6) when
            # it writes; the NETWORK_ACK is not a queued frame and must be taken in all the same
            def do_unread(node):
                for i in range(un["count"]):
                    node.write(L.Frame(L.Header(src, 1), b"un%02d" % i))
            net.call(un["src"], do_unread, timeout_ms=5000)
            net.settle(500)
            res.label("sender-holds-unread-%s" % ("some" if un["count"] < 6 else "full-queue"))
        ch = case.get("chatter")
        if ch:
            # a neighbour keeps sending unacknowledged-type user frames to the (waiting) sender at a fixed period
            def do_chatter(node):
                for i in range(ch["count"]):
                    node.write(L.Frame(L.Header(src, 1), b"ch%02d" % (i % 100)))
                    net.sim.advance(ch["period_us"] * US)
            net.post(ch["src"], do_chatter)
            net.sim.advance(2 * MS)
        bg = case.get("bg")
        if bg:
            def do_bg(node):
                return node.write(L.Frame(L.Header(bg["dst"], bg["type"]), b"bg"))
            if bg["lead_us"] >= 0:
                net.post(bg["src"], do_bg)
                net.sim.advance(bg["lead_us"] * US)
            else:
                box0 = net.post(src, do)
                net.sim.advance(-bg["lead_us"] * US)
                net.post(bg["src"], do_bg)
                net.wait(lambda: box0["done"], 20000)
                out["box"] = box0
        if "box" not in out:
            out["box"] = net.call(src, do, timeout_ms=20000)
        net.settle(3000)
        out["queues"] = net.drain_queues()

    try:
        net.sim.run_main(main)
    except SimHorizon:
        res.fail("C13/does-not-terminate", "virtual-time horizon reached")
        return res
    except Exception as e:  # noqa: BLE001
        res.fail(exc_signature("C13/raises", e), repr(e))
        return res
    for k, exc, where in net.dead_tasks():
        res.fail(exc_signature("C13/node-raises", exc), "node %o died in %s: %r" % (k, where, exc))
    box = out.get("box", {})
    cls = "%s-%s" % ("acked" if acked_type else "plain", "direct" if hops == 1 else "routed")
    if needs or fault:
        res.nontrivial = True
    res.label(cls, "hops%d" % hops, "fault-%s" % (fault[0] if fault else "none"))
    if not box.get("done"):
        res.fail("C13/write-blocks/" + cls, "write() had not returned after 20 s (tx_timeout %d, route_timeout %d)" % (
            case["tx_timeout"], case["route_timeout"]))
        return res
    if "exc" in box:
        res.fail(exc_signature("C13/write-raises", box["exc"]), repr(box["exc"]))
        return res
    ret, t0, t1 = box["result"]
    log = net.med.log
    has_bg = bool(case.get("bg"))
    if has_bg:
        res.label("with-background-message")
    # ---- who originated NETWORK_ACK frames
    tx193, rx193 = {}, {}
    for f in air_frames(net.med, merge_all=True):
        h = hdr(f["pl"])
        if h is None or h[3] != 193 or (typ == 193 and h[1] == dst):
            continue
        tx193.setdefault(f["src"], []).append(h)
        for r in f["rx"]:
            rx193[r] = rx193.get(r, 0) + 1
    originated = {n: len(v) - rx193.get(n, 0) for n, v in tx193.items()}
    originated = {n: k for n, k in originated.items() if k > 0}
    last_router = str(path[-2]) if hops >= 2 else None
    delivered = any(f[0] == src and f[3] == typ and f[5] == msg for f in out["queues"].get(dst, []))
    reached_dst_chip = any((not e["ack"]) and str(dst) in e["rx"] and hdr(e["pl"]) and hdr(e["pl"])[3] == typ and hdr(e["pl"])[1] == dst for e in log)
    exp_acks = 1 if (needs and reached_dst_chip) else 0
    got_total = sum(originated.values())
    if has_bg:
        pass  # two messages in the air: origination accounting is only done for single-message cases
    elif got_total != exp_acks or (exp_acks and originated.get(last_router) != 1):
        who = {("%o" % int(n)): k for n, k in originated.items()}
        if got_total > exp_acks:
            sig = "C13/unexpected-network-ack/" + cls if exp_acks == 0 else "C13/network-ack-sent-more-than-once"
        else:
            sig = "C13/network-ack-missing/" + cls
        res.fail(sig, "%o -> %o type %d over %d hops: NETWORK_ACKs originated by %s, expected %d (by %s)" % (
            src, dst, typ, hops, who or "nobody", exp_acks, "%o" % int(last_router) if last_router and exp_acks else "nobody"))
    for n, hs in tx193.items():
        for h in hs:
            if h[1] != src and not has_bg:
                res.fail("C13/network-ack-misaddressed", "node %o sent a NETWORK_ACK to %o, the origin is %o" % (int(n), h[1], src))
    # ---- write() result
    first = [e for e in log if not e["ack"] and e["src"] == str(src) and hdr(e["pl"]) and hdr(e["pl"])[1] == dst
             and hdr(e["pl"])[0] == src and hdr(e["pl"])[3] == typ and e["pl"][8:] == msg]
    accepted = [e for e in first if e["acked"]]
    if not needs:
        exp = bool(accepted)
        if ret is not exp:
            res.fail("C13/write-result/" + cls, "write() returned %r; first hop %s and no NETWORK_ACK is awaited for type %d over %d hop(s)" % (
                ret, "accepted the frame" if accepted else "never acknowledged", typ, hops))
    else:
        if not accepted:
            if ret is not False:
                res.fail("C13/write-result/" + cls, "write() returned %r although the first hop never accepted the frame" % (ret,))
        else:
            t_acc = accepted[0]["t1"]
            deadline = t_acc + case["route_timeout"] * MS
            arrivals = [e["t1"] for e in log if not e["ack"] and str(src) in e["rx"] and hdr(e["pl"]) and hdr(e["pl"])[3] == 193
                        and hdr(e["pl"])[1] == src and e["t1"] >= t_acc]
            amb = 2 * MS + 40 * slow
            if arrivals and abs(arrivals[0] - deadline) <= amb:
                res.label("ambiguous-deadline")
            else:
                exp = bool(arrivals) and arrivals[0] < deadline
                if ret is not exp:
                    if ret is True:
                        res.fail("C13/write-true-without-network-ack", "write() returned True; %s" % (
                            "no NETWORK_ACK for the origin reached it" if not arrivals else
                            "the NETWORK_ACK arrived %.1f ms after the deadline" % ((arrivals[0] - deadline) / 1e6)))
                    else:
                        res.fail("C13/write-false-despite-network-ack", "write() returned False although the NETWORK_ACK arrived "
                                 "%.1f ms before the route_timeout deadline" % ((deadline - arrivals[0]) / 1e6))
    # ---- duration
    if has_bg:
        return res  # time bounds assume the sender is not also relaying another message
    arc_bound = 6 * 5 * MS + 4 * MS
    bound = (arc_bound + case["tx_timeout"] * MS) + (case["route_timeout"] * MS if needs else 0) + 10 * MS + 400 * slow
    if case.get("chatter"):
        # the update() call that is running when the deadline passes may still have to take in what the 3-level RX FIFO
        # holds (about 10 SPI transactions per frame; twice the FIFO depth allowed)
        bound += 6 * 12 * slow
        res.label("chatter-to-the-waiting-sender")
    if t1 - t0 > bound:
        res.fail("C13/write-exceeds-time-bound/" + cls, "write() took %.1f ms, bound %.1f ms" % ((t1 - t0) / 1e6, bound / 1e6))
    if not needs and accepted and t1 - t0 > arc_bound + case["tx_timeout"] * MS + 6 * MS + 400 * slow and ret is True:
        res.fail("C13/waits-without-need/" + cls, "write() took %.1f ms for a message that needs no NETWORK_ACK" % ((t1 - t0) / 1e6))
    if not fault and not delivered and typ != 193:
        res.label("not-delivered")
    return res


def _topology(src, dst, extra=()):
    nodes = set([src, dst]) | set(netaddr.tree_path(src, dst))
    for a in list(nodes) + list(extra):
        while a is not None:
            nodes.add(a)
            a = netaddr.parent(a)
    return [{"addr": a, "kind": "net"} for a in sorted(nodes)]


TYPE_CLASSES = [0, 64, 65, 100, 127, 129, 191, 192, 193, 196, 255]


def _enum(quick):
    def gen():
        for hops, (s, d) in ROUTES.items():
            for rev in (False, True):
                src, dst = (d, s) if rev else (s, d)
                for typ in (TYPE_CLASSES if not quick else [0, 65, 127, 191, 192, 193]):
                    faults = [None]
                    if typ in (65, 127, 191, 0):
                        faults += [["data", i] for i in range(hops)] + ([["ack", j] for j in range(hops - 1)] if hops >= 2 else [])
                    for f in faults:
                        if quick and rev and f is not None:
                            continue
                        yield {"src": src, "dst": dst, "type": typ, "msg": "c13a" * (hops % 4), "tx_timeout": 10, "route_timeout": 40,
                               "fault": f, "nodes": _topology(src, dst)}
        # a header object that already carries another valid origin address; a message of exactly 24 bytes
        for hops, (s, d) in ROUTES.items():
            for typ in (65, 0):
                yield {"src": s, "dst": d, "type": typ, "msg": "c13f", "tx_timeout": 10, "route_timeout": 40, "fault": None, "nodes": _topology(s, d),
                       "stale_from": 0o3 if s != 0o3 else 0o4}
                yield {"src": d, "dst": s, "type": typ, "msg": "5a" * 24, "tx_timeout": 10, "route_timeout": 40, "fault": None, "nodes": _topology(d, s)}
        # the type assigned to the header attribute as a one-character str after construction
        for hops, (s, d) in ROUTES.items():
            for typ in (84, 33):
                for f in [None] + ([["data", hops - 1], ["ack", 0]] if hops >= 2 and typ == 84 else []):
                    yield {"src": s, "dst": d, "type": typ, "msg": "c13c", "tx_timeout": 10, "route_timeout": 40, "fault": f, "nodes": _topology(s, d),
                           "str_type": True}
        # the same frame object written once or twice before (same frame id each time)
        for hops, (s, d) in ROUTES.items():
            for again in (1, 2):
                for typ in (65, 0):
                    yield {"src": s, "dst": d, "type": typ, "msg": "c13b", "tx_timeout": 10, "route_timeout": 40, "fault": None, "nodes": _topology(s, d),
                           "again": again}
                    yield {"src": d, "dst": s, "type": typ, "msg": "c13b", "tx_timeout": 10, "route_timeout": 40, "fault": None, "nodes": _topology(d, s),
                           "again": again}
        # every node listens to another level's multicasts (multicast_level raised or lowered): routing and NETWORK_ACKs as before
        for hops, (s, d) in ROUTES.items():
            for rev in (False, True):
                src, dst = (d, s) if rev else (s, d)
                for shift in (1, 2, -1):
                    nodes = _topology(src, dst)
                    for n in nodes:
                        n["mc_level"] = max(0, min(4, netaddr.level(n["addr"]) + shift))
                    for typ in (65, 0):
                        yield {"src": src, "dst": dst, "type": typ, "msg": "c13e", "tx_timeout": 10, "route_timeout": 40, "fault": None, "nodes": nodes}
        # delayed first-hop accept: the first k attempts of the origin's data frame are lost, route_timeout swept
        for hops in (4, 6, 8):
            s, d = ROUTES[hops]
            for k in (5, 8, 11):
                for rt in ((15, 25, 35, 45, 60) if quick else range(10, 80, 5)):
                    yield {"src": s, "dst": d, "type": 100, "msg": "d1", "tx_timeout": 25, "route_timeout": rt,
                           "fault": ["data-first-k", 0, k], "nodes": _topology(s, d)}
        # a second acknowledged message whose NETWORK_ACK is relayed by the waiting sender
        for mc_off in (False, True):
            for lead in (-3000, -1000, 0, 1000, 3000, 6000):
                nodes = _topology(0o11, 0o3, [0o1])
                for n in nodes:
                    n["mc_off"] = mc_off
                yield {"src": 0o1, "dst": 0o22, "type": 100, "msg": "d2", "tx_timeout": 10, "route_timeout": 60, "fault": None,
                       "nodes": nodes, "bg": {"src": 0o11, "dst": 0o3, "type": 101, "lead_us": lead}}
        # a frame addressed to the waiting sender itself lands in its RX FIFO right behind the NETWORK_ACK (slow sender MCU,
        # the other frame's start swept in 250 us steps)
        for lead in range(-9000, 3001, 250 if not quick else 500):
            nodes = _topology(0o1, 0o2, [0o11])
            for n in nodes:
                n["mcu"] = {"spi": 400, "jit": 0, "seed": 1, "poll": 100} if n["addr"] == 0o1 else {"spi": 20, "jit": 0, "seed": 2, "poll": 100}
            yield {"src": 0o1, "dst": 0o2, "type": 100, "msg": "d3", "tx_timeout": 25, "route_timeout": 75, "fault": None,
                   "nodes": nodes, "bg": {"src": 0o11, "dst": 0o1, "type": 10, "lead_us": lead}}
        # the NETWORK_ACK is lost (or not) while a child keeps sending plain frames to the waiting sender: the wait must
        # still end at the route_timeout deadline
        for period in ((400, 600, 1500) if quick else (200, 300, 400, 500, 600, 700, 800, 1000, 1500, 2500, 4000, 8000)):
            for spi in (20, 400):
                for f in (["ack", 0], None):
                    nodes = _topology(0o1, 0o2, [0o11])
                    for n in nodes:
                        n["mcu"] = {"spi": spi, "jit": 0, "seed": 1, "poll": 100} if n["addr"] == 0o1 else {"spi": 8, "jit": 0, "seed": 2, "poll": 100}
                    yield {"src": 0o1, "dst": 0o2, "type": 100, "msg": "d4", "tx_timeout": 25, "route_timeout": 75, "fault": f,
                           "nodes": nodes, "chatter": {"src": 0o11, "period_us": period, "count": 500}}
        # the sender's own queue holds 0..8 unread frames (it takes 6) when it writes a message that needs a NETWORK_ACK
        for count in range(0, 9):
            for spi in (20, 400):
                for f in (None, ["ack", 0]):
                    for s_, d_, x_ in ((0o1, 0o2, 0o11), (0o11, 0o2, 0o1), (0, 0o11, 0o2)):
                        nodes = _topology(s_, d_, [x_])
                        for n in nodes:
                            n["mcu"] = {"spi": spi, "jit": 0, "seed": 1, "poll": 100} if n["addr"] == s_ else None
                        yield {"src": s_, "dst": d_, "type": 100, "msg": "d5", "tx_timeout": 25, "route_timeout": 75, "fault": f,
                               "nodes": nodes, "unread": {"src": x_, "count": count}}
    return gen


def _strategy():
    from hypothesis import strategies as st
    allp = netaddr.all_nodes()

    @st.composite
    def case(draw):
        hops = draw(st.integers(1, 8))
        s, d = ROUTES[hops]
        if draw(st.booleans()):
            s, d = draw(st.sampled_from(allp)), draw(st.sampled_from(allp))
            if s == d:
                d = 0 if s else 0o3
        if draw(st.booleans()):
            s, d = d, s
        path = [s] + netaddr.tree_path(s, d)
        hops = len(path) - 1
        typ = draw(st.one_of(st.integers(0, 255), st.sampled_from([64, 65, 66, 127, 190, 191, 192, 193])).filter(lambda t: t not in CONSUMED))
        fault = None
        k = draw(st.integers(0, 3))
        if k == 1:
            fault = ["data", draw(st.integers(0, hops - 1))]
        elif k == 2 and hops >= 2:
            fault = ["ack", draw(st.integers(0, hops - 2))]
        elif k == 3:
            fault = ["data-first-k", draw(st.integers(0, hops - 1)), draw(st.integers(1, 14))]
        extra = draw(st.lists(st.sampled_from(allp[:156]), max_size=3))
        nodes = _topology(s, d, extra)
        mcu = st.one_of(st.none(), st.fixed_dictionaries({"spi": st.sampled_from([8, 20, 50, 100, 400]), "jit": st.sampled_from([0, 20, 60]),
                                                          "seed": st.integers(0, 9999), "poll": st.sampled_from([100, 500, 1000, 3000])}))
        for n in nodes:
            n["mcu"] = draw(mcu)
            if n["addr"] not in (s, d) and draw(st.integers(0, 3)) == 0:
                n["kind"] = "router"
        bg = None
        if draw(st.integers(0, 3)) == 0:
            cand = [x["addr"] for x in nodes if x["addr"] != s]
            if len(cand) >= 2:
                b1 = draw(st.sampled_from(cand))
                b2 = draw(st.sampled_from([c for c in cand if c != b1]))
                bg = {"src": b1, "dst": b2, "type": draw(st.sampled_from([66, 100, 3])), "lead_us": draw(st.integers(-8000, 8000))}
                for x in nodes:
                    if x["addr"] in (b1, b2):
                        x["kind"] = "net"
        if draw(st.integers(0, 4)) == 0:
            for x in nodes:
                x["mc_off"] = True
        unread = None
        if bg is None and draw(st.integers(0, 3)) == 0:
            cand = [x for x in nodes if x["addr"] != s]
            if cand:
                x = draw(st.sampled_from(cand))
                x["kind"] = "net"
                unread = {"src": x["addr"], "count": draw(st.sampled_from([1, 3, 5, 6, 6, 7, 9]))}
        n = draw(st.integers(0, 24))
        if fault is None and bg is None and unread is None and draw(st.integers(0, 2)) == 0:
            return {"src": s, "dst": d, "type": typ, "msg": draw(st.binary(min_size=n, max_size=n)).hex(), "again": draw(st.integers(1, 3)),
                    "tx_timeout": draw(st.sampled_from([5, 10, 25, 50])), "route_timeout": draw(st.sampled_from([20, 40, 75, 200])),
                    "fault": None, "nodes": nodes}
        return {"src": s, "dst": d, "type": typ, "bg": bg, "unread": unread, "msg": draw(st.binary(min_size=n, max_size=n)).hex(),
                "tx_timeout": draw(st.sampled_from([5, 10, 25, 50])), "route_timeout": draw(st.sampled_from([20, 40, 75, 200])),
                "fault": fault, "nodes": nodes}

    return case()


def _parts(tier):
    if tier == "quick":
        return [Part("enum-routes-x-faults", "enum", _enum(True), exhaustive=True), Part("generated", "gen", _strategy, n=200)]
    return [Part("enum-routes-x-faults", "enum", _enum(False), exhaustive=True), Part("generated", "gen", _strategy, n=15000)]


def parts(tier):
    # every case also carries a starting value of the 16-bit frame-id counter (netutil.with_id0)
    return [with_id0(p) for p in _parts(tier)]
