"""C19 - received BLE packets decode to what was advertised; all else is ignored safely.

Case kinds: (rt) FakeBLE -> FakeBLE over the simulated air; (enc) packets produced by the
independent BLE encoder (vlib.ref.ble) injected by a raw transmitter; (flip) every 1- and
2-bit corruption of a valid packet; (adv) CRC-valid packets whose AD area is adversarial;
(raw) arbitrary 32 received bytes (Hypothesis and atheris).  Oracle: the reference parser
decides whether a payload is a consistent BLE packet (length byte and CRC-24); consistent
packets must be queued as one element whose MAC / name / PA level / service values equal what
was advertised, inconsistent ones must not be queued, available() must never raise, and
read() returns queued elements in arrival order, each once."""
import struct

from vlib import boot
from vlib.harness.runner import Result, Part, exc_signature
from vlib.ref import ble
from vlib.sim.core import Sim, MS, SimHorizon
from vlib.sim.radio import Chip, Medium
from vlib.sim.selftest import Raw
from vlib.sim.shims import make_spidev_radio

PROPERTY = "C19"
LEVEL = "exploration"
RULE = ("(rt) name/PA level/service data combinations (battery 0..255, temperature -300.00..300.00 as float and as mantissa, "
        "scheme-prefixed printable URLs, raw chunks of other AD types) advertised by one FakeBLE and received by another on each "
        "of the 3 channels; (enc) the same from the independent encoder; (flip) all 256 single and 32640 double bit flips of a "
        "valid 32-byte payload - exhaustive per packet; (adv) CRC-valid packets with drawn/adversarial AD lengths and types; "
        "(raw) random 32-byte payloads, Hypothesis and atheris; 1..3 packets per case so read() order is exercised.  "
        "non-trivial = at least one packet that passes the reference length/CRC gate; distinct = SHA-1 of the case JSON")
ASSUMPTIONS = ["a delivered packet is intact (bit errors are modelled by explicitly corrupted payloads, not by the medium)",
               "temperature floats are compared with tolerance 0.01 (+1e-9): the encoder truncates to 1/100; mantissa inputs exactly",
               "the fixed flags structure 02 01 05 in element.data is ignored"]
SHRINK_LISTS = ("packets", "items", "ads")
BLE_ADDR = b"\x71\x91\x7d\x6b"
MAC = bytes.fromhex("a1b2c3d4e5f6")


def simplify(case):
    for i, p in enumerate(case.get("packets", [])):
        if p.get("name"):
            c = dict(case)
            c["packets"] = [dict(x) for x in case["packets"]]
            c["packets"][i]["name"] = None
            yield c
        if p.get("show_pa"):
            c = dict(case)
            c["packets"] = [dict(x) for x in case["packets"]]
            c["packets"][i]["show_pa"] = False
            yield c


def expected_from_ads(ads):
    """documented QueueElement content for a list of (type, data) AD structures"""
    exp = {"name": None, "pa": None, "data": []}
    for t, d in ads:
        if t == 0x01:
            continue
        if t == 0x0A and len(d) == 1:
            exp["pa"] = struct.unpack("b", d)[0]
        elif t in (0x08, 0x09):
            try:
                exp["name"] = d.decode("utf-8")
            except UnicodeError:
                exp["name"] = bytes(d)
        elif t == 0x16 and len(d) >= 2:
            uuid = d[0] | (d[1] << 8)
            if uuid == 0x1809:
                exp["data"].append(("temp", ble.temperature_value(d[2:6]) if len(d) >= 6 else None))
            elif uuid == 0x180F:
                exp["data"].append(("battery", d[2] if len(d) >= 3 else None))
            elif uuid == 0xFEAA:
                exp["data"].append(("url", ble.eddystone_url_decode(d[4:]), struct.unpack("b", d[3:4])[0] if len(d) >= 4 else None))
            else:
                exp["data"].append(("svc-raw", bytes([t]) + bytes(d)))
        else:
            exp["data"].append(("raw", bytes([len(d) + 1, t]) + bytes(d)))
    return exp


def compare_element(res, L, el, mac, exp, tol, sig="C19"):
    fb = L.fake_ble
    if bytes(el.mac) != mac:
        res.fail(sig + "/mac", "element.mac %s, advertised %s" % (bytes(el.mac).hex(), mac.hex()))
    if el.name != exp["name"]:
        res.fail(sig + "/name", "element.name %r, advertised %r" % (el.name, exp["name"]))
    if el.pa_level != exp["pa"]:
        res.fail(sig + "/pa_level", "element.pa_level %r, advertised %r" % (el.pa_level, exp["pa"]))
    got = [d for d in el.data if not (isinstance(d, (bytes, bytearray)) and len(d) >= 2 and d[1] == 0x01)]
    if len(got) != len(exp["data"]):
        res.fail(sig + "/data-count", "%d data elements, advertised %d" % (len(got), len(exp["data"])))
        return
    for g, e in zip(got, exp["data"]):
        kind = e[0]
        try:
            if kind == "battery":
                if not isinstance(g, fb.BatteryServiceData) or g.data != e[1]:
                    res.fail(sig + "/battery", "decoded %r, advertised %r" % (getattr(g, "data", g), e[1]))
            elif kind == "temp":
                if not isinstance(g, fb.TemperatureServiceData) or abs(g.data - e[1]) > tol:
                    neg = "negative-" if e[1] < 0 else ""
                    res.fail(sig + "/%stemperature" % neg, "decoded %r, advertised %r" % (getattr(g, "data", g), e[1]))
            elif kind == "url":
                if not isinstance(g, fb.UrlServiceData) or g.data != e[1]:
                    res.fail(sig + "/url", "decoded %r, advertised %r" % (getattr(g, "data", g), e[1]))
                elif g.pa_level_at_1_meter != e[2]:
                    res.fail(sig + "/url-tx-power", "decoded %r, advertised %r" % (g.pa_level_at_1_meter, e[2]))
            elif kind == "svc-raw":
                if not isinstance(g, (bytes, bytearray)) or bytes(e[1][1:]) not in bytes(g):
                    res.fail(sig + "/raw-chunk", "decoded %r, advertised %r" % (g, e[1]))
            else:
                if not isinstance(g, (bytes, bytearray)) or bytes(g) != e[1]:
                    res.fail(sig + "/raw-chunk", "decoded %r, advertised %r" % (g if not isinstance(g, bytearray) else bytes(g), e[1]))
        except Exception as ex:  # noqa: BLE001 - reading a decoded value of a well-formed packet must work
            res.fail(exc_signature(sig + "/value-raises", ex), "%s: %r" % (kind, ex))


def run_case(case):
    L = boot.lib()
    fb = L.fake_ble
    res = Result()
    sim = Sim(spi_budget=400000)
    med = Medium(sim)
    R = Chip(sim, med, "R")
    try:
        rx = make_spidev_radio(L.FakeBLE, R)
        rx.__enter__()
        freqs = (2, 26, 80)

        def tune(radio, how):
            # reach BLE channel index case["hops"] either by hopping or by assigning the channel attribute
            # (after a drawn number of hops, so that the assignment really changes the frequency)
            if how and how[0] == "assign":
                for _ in range(how[1]):
                    radio.hop_channel()
                radio.channel = freqs[case["hops"] % 3]
            else:
                for _ in range(case["hops"]):
                    radio.hop_channel()

        # a second FakeBLE object on a radio of its own in the same program; nothing is ever sent on its medium
        idle = make_spidev_radio(L.FakeBLE, Chip(sim, Medium(sim), "I"))
        idle.__enter__()
        idle.listen = True
        tune(rx, case.get("rx_tune"))
        rx.listen = True
        sim.advance(1 * MS)
        rfch = R.reg[5]
        blech = ble.RF_CH_TO_BLE[rfch]
        kind = case["kind"]
        expected = []  # per packet: None (must not be queued) / dict(mac, exp, tol) / "any" (queued, content not judged)
        if kind == "rt":
            T = Chip(sim, med, "T")
            tx = make_spidev_radio(L.FakeBLE, T)
            tx.__enter__()
            tune(tx, case.get("tx_tune"))
            tx.mac = MAC
        else:
            X = Chip(sim, med, "X")
            x = Raw(sim, X)
            x.w(0, 0x02)
            x.w(1, 0x00)
            x.w(2, 0x01)
            x.w(3, 2)
            x.w(4, 0x00)
            x.w(5, rfch)
            x.w(6, 0x07)
            x.w(0x10, *BLE_ADDR)
            sim.advance(3 * MS)
        for pk in case["packets"]:
            if kind == "rt":
                tx.name = None if pk.get("name") is None else (pk["name"]["s"] if "s" in pk["name"] else bytes.fromhex(pk["name"]["b"]))
                tx.show_pa_level = pk["show_pa"] if isinstance(pk.get("show_pa"), int) else bool(pk.get("show_pa"))  # True/False or a truthy int
                tx.pa_level = pk.get("pa", 0)
                chunks, exp = [], {"name": None, "pa": pk.get("pa", 0) if pk.get("show_pa") else None, "data": []}
                if pk.get("name") is not None:
                    nb = pk["name"]["s"].encode() if "s" in pk["name"] else bytes.fromhex(pk["name"]["b"])
                    try:
                        exp["name"] = nb.decode("utf-8")
                    except UnicodeError:
                        exp["name"] = nb
                tol = 0.0
                for it in pk["items"]:
                    if it[0] == "battery":
                        s = fb.BatteryServiceData()
                        s.data = it[1]
                        chunks.append(fb.chunk(s.buffer))
                        exp["data"].append(("battery", it[1]))
                    elif it[0] == "tempf":
                        s = fb.TemperatureServiceData()
                        s.data = float(it[1])
                        chunks.append(fb.chunk(s.buffer))
                        exp["data"].append(("temp", float(it[1])))
                        tol = 0.01 + 1e-9
                    elif it[0] == "tempm":
                        s = fb.TemperatureServiceData()
                        s.data = ble.temperature_bytes(it[1])
                        chunks.append(fb.chunk(s.buffer))
                        exp["data"].append(("temp", it[1] / 100.0))
                        tol = max(tol, 1e-6)
                    elif it[0] == "url":
                        s = fb.UrlServiceData()
                        if len(it) > 3 and it[3] == "power-last":
                            # the application looked at the buffer (e.g. to ask len_available()) before it set the power
                            s.data = it[1]
                            tx.len_available(fb.chunk(s.buffer))
                            s.pa_level_at_1_meter = it[2]
                        else:
                            s.pa_level_at_1_meter = it[2]
                            s.data = it[1]
                        chunks.append(fb.chunk(s.buffer))
                        exp["data"].append(("url", it[1], it[2]))
                    else:
                        chunks.append(fb.chunk(bytes.fromhex(it[2]), it[1]))
                        exp["data"].append(("raw", ble.ad(it[1], bytes.fromhex(it[2]))))
                try:
                    tx.advertise(chunks)
                except ValueError:
                    res.label("did-not-fit")
                    continue
                expected.append({"mac": MAC, "exp": exp, "tol": tol})
                res.nontrivial = True
                sim.advance(2 * MS)
            else:
                payload = bytes.fromhex(pk["payload"]) if "payload" in pk else None
                if payload is None:
                    ads = [(t, bytes.fromhex(h)) for t, h in pk["ads"]]
                    if "rawad" in pk:
                        pdu = ble.build_pdu(bytes.fromhex(pk["mac"]), [bytes.fromhex(pk["rawad"])])
                    else:
                        pdu = ble.build_pdu(bytes.fromhex(pk["mac"]), [ble.ad(t, d) for t, d in ads])
                    if pk.get("len_or"):
                        # a foreign transmitter: the length byte has high bits set, the CRC-24 is correct for these very bytes
                        pdu = bytes([pdu[0], pdu[1] | pk["len_or"]]) + pdu[2:]
                    payload = ble.encode_radio_payload(pdu, blech, corrupt_crc=bool(pk.get("bad_crc")))
                    for bit in pk.get("flips", []):
                        payload = bytearray(payload)
                        payload[bit // 8] ^= 1 << (bit % 8)
                        payload = bytes(payload)
                payload = (payload + bytes(32))[:32]
                p = ble.parse_radio_payload(payload, blech)
                ok = "error" not in p and p["crc_ok"]
                if pk.get("len_or") and ok:
                    # reserved bits set in the length byte: a receiver may ignore them (specification) or ignore the packet;
                    # either way it must not raise, and whatever it queues is taken out again unjudged
                    expected.append("maybe")
                elif not ok:
                    expected.append(None)
                elif kind in ("enc",) and not pk.get("flips") and not pk.get("bad_crc") and "rawad" not in pk:
                    expected.append({"mac": p["mac"], "exp": expected_from_ads(p["ads"]), "tol": 1e-6})
                    res.nontrivial = True
                else:
                    expected.append("any" if p.get("ad_error") or "rawad" in pk or kind != "enc" else
                                    {"mac": p["mac"], "exp": expected_from_ads(p["ads"]), "tol": 1e-6})
                    res.nontrivial = True
                x.w(7, 0x70)
                x.x(0xE1)
                x.x(0xA0, *payload)
                x.ce(True)
                sim.advance(2 * MS)
                x.ce(False)
            # the application polls after each packet (FIFO holds 3; polling keeps arrival order observable)
            n_before = len(rx.rx_queue)
            try:
                av = rx.available()
            except SimHorizon:
                raise
            except Exception as e:  # noqa: BLE001 - the property: available() never raises
                res.fail(exc_signature("C19/available-raises", e), repr(e))
                return res
            want = expected[-1] if expected else None
            grew = len(rx.rx_queue) - n_before
            if want == "maybe":
                expected.pop()
                res.label("reserved-length-bits")
                for _ in range(max(0, grew)):
                    rx.rx_queue.pop()
                continue
            if want is None and grew:
                res.fail("C19/inconsistent-packet-queued", "a payload whose length byte / CRC-24 is inconsistent was queued")
            if want is not None and grew != 1:
                res.fail("C19/valid-packet-not-queued" if grew == 0 else "C19/queued-more-than-once",
                         "queue grew by %d for one valid packet" % grew)
            if bool(av) != bool(rx.rx_queue):
                res.fail("C19/available-return", "available() = %r with %d queued elements" % (av, len(rx.rx_queue)))
            if case.get("rx_advertises") and kind != "rt" and rx.rx_queue:
                # a node that scans AND advertises: with elements waiting in its queue (and one more, undecodable, payload in
                # its radio) it sends an advertisement of its own and goes back to listening - the queue is untouched
                noise = bytes((37 * i + 11 * len(rx.rx_queue)) & 0xFF for i in range(32))
                if ble.parse_radio_payload(noise, blech).get("crc_ok"):
                    noise = bytes(32)
                x.w(7, 0x70)
                x.x(0xE1)
                x.x(0xA0, *noise)
                x.ce(True)
                sim.advance(2 * MS)
                x.ce(False)
                nq = len(rx.rx_queue)
                rx.listen = False
                rx.advertise(b"\x07", 0xFF)
                rx.listen = True
                sim.advance(1 * MS)
                res.label("scanner-advertises-with-elements-queued")
                if len(rx.rx_queue) != nq:
                    res.fail("C19/queued-element-lost-by-advertise", "the queue held %d element(s) before the node's own advertise(), %d after" % (
                        nq, len(rx.rx_queue)))
                    return res
            if idle.available() or idle.rx_queue:
                res.fail("C19/element-on-a-radio-that-received-nothing", "a second FakeBLE object on another radio reports %d queued element(s)" % len(idle.rx_queue))
                return res
        # read(): arrival order, each once
        wants = [w for w in expected if w is not None]
        for i, w in enumerate(wants):
            el = rx.read()
            if el is None:
                res.fail("C19/read-missing", "read() returned None, %d elements expected, got %d" % (len(wants), i))
                break
            if w != "any":
                compare_element(res, L, el, w["mac"], w["exp"], w["tol"])
            else:
                _ = bytes(el.mac)
        if rx.read() is not None:
            res.fail("C19/read-extra", "read() returned an element beyond the %d received" % len(wants))
    except SimHorizon:
        res.fail("C19/does-not-terminate", "virtual-time / SPI budget reached")
    except Exception as e:  # noqa: BLE001
        res.fail(exc_signature("C19/raises", e), repr(e))
    res.label(case["kind"], "ch%d" % case["hops"])
    return res


# ---------------------------------------------------------------------------- case sources
URL_CHARS = "abcxyz019-_~"


def _items_strategy(st):
    url = st.builds(lambda p, a, s, b: p + a + s + b, st.sampled_from(ble.URL_PREFIX), st.text(alphabet=URL_CHARS, min_size=1, max_size=5),
                    st.sampled_from(ble.URL_SUFFIX + ["", ""]), st.text(alphabet=URL_CHARS, max_size=3))
    temp_m = st.one_of(st.integers(-30000, 30000), st.sampled_from([-30000, -1, 0, 1, 30000, -128, -129, 127, 128, -32768, 32767]))
    return st.one_of(
        st.tuples(st.just("battery"), st.one_of(st.integers(0, 255), st.sampled_from([0, 1, 100, 255]))),
        st.tuples(st.just("tempm"), temp_m),
        st.tuples(st.just("tempf"), temp_m.map(lambda m: m / 100.0)),
        st.tuples(st.just("url"), url, st.integers(-128, 127)),
        st.tuples(st.just("url"), url, st.integers(-128, 127), st.just("power-last")),
        st.tuples(st.just("raw"), st.sampled_from([0xFF, 0x02, 0x03, 0x19, 0x24, 0x00]), st.binary(max_size=8).map(bytes.hex)),
    ).map(list)


def _rt_strategy():
    from hypothesis import strategies as st
    namev = st.one_of(st.none(), st.none(), st.text(alphabet="abcXYZ01 ", max_size=6).map(lambda s: {"s": s}),
                      st.binary(max_size=6).map(lambda b: {"b": b.hex()}))
    pkt = st.fixed_dictionaries({"name": namev, "show_pa": st.sampled_from([False, True, True, 2, 4]), "pa": st.sampled_from([-18, -12, -6, 0]),
                                 "items": st.lists(_items_strategy(st), min_size=0, max_size=3)})
    tune = st.one_of(st.none(), st.none(), st.tuples(st.just("assign"), st.integers(0, 2)).map(list))
    return st.fixed_dictionaries({"kind": st.just("rt"), "hops": st.integers(0, 2), "rx_tune": tune, "tx_tune": tune,
                                  "packets": st.lists(pkt, min_size=1, max_size=3)})


def ad_from_item(it):
    if it[0] == "battery":
        return (0x16, b"\x0f\x18" + bytes([it[1]]))
    if it[0] in ("tempm", "tempf"):
        m = it[1] if it[0] == "tempm" else int(round(it[1] * 100))
        return (0x16, b"\x09\x18" + ble.temperature_bytes(m))
    if it[0] == "url":
        return (0x16, b"\xaa\xfe\x10" + struct.pack("b", it[2]) + ble.eddystone_url_encode(it[1]))
    return (it[1], bytes.fromhex(it[2]))


def _enc_strategy():
    from hypothesis import strategies as st

    @st.composite
    def pkt(draw):
        ads = [(0x01, b"\x05")]
        if draw(st.booleans()):
            ads.append((0x0A, struct.pack("b", draw(st.sampled_from([-18, -12, -6, 0, 4, -128, 127])))))
        if draw(st.booleans()):
            ads.append((draw(st.sampled_from([0x08, 0x09])), draw(st.one_of(st.text(alphabet="abcé", max_size=5).map(str.encode),
                                                                        st.binary(max_size=5)))))
        for it in draw(st.lists(_items_strategy(st), max_size=3)):
            ads.append(ad_from_item(it))
        while sum(len(d) + 2 for _t, d in ads) > 21:
            ads.pop()
        return {"mac": draw(st.binary(min_size=6, max_size=6)).hex(), "ads": [[t, bytes(d).hex()] for t, d in ads],
                "bad_crc": draw(st.integers(0, 9)) == 0}

    tune = st.one_of(st.none(), st.none(), st.tuples(st.just("assign"), st.integers(0, 2)).map(list))
    return st.fixed_dictionaries({"kind": st.just("enc"), "hops": st.integers(0, 2), "rx_tune": tune,
                                  "packets": st.lists(pkt(), min_size=1, max_size=3)})


def _adv_strategy():
    from hypothesis import strategies as st
    # CRC-valid packets whose AD area is arbitrary bytes biased to plausible-but-malformed structures
    piece = st.one_of(
        st.binary(max_size=6),
        st.tuples(st.integers(0, 24), st.sampled_from([0x16, 0x0A, 0x08, 0x09, 0xFF, 0x01, 0x00]), st.binary(max_size=6)).map(
            lambda t: bytes([t[0], t[1]]) + t[2]),
        st.tuples(st.sampled_from([0x16]), st.sampled_from([b"", b"\x09", b"\x09\x18", b"\x0f\x18", b"\xaa\xfe", b"\xaa\xfe\x10",
                                                              b"\x09\x18\x01", b"\xaa\xfe\x10\x00\xff\xfe"])).map(
            lambda t: bytes([len(t[1]) + 1, t[0]]) + t[1]),
    )
    rawad = st.lists(piece, max_size=4).map(lambda ps: b"".join(ps)[:21])
    pkt = st.fixed_dictionaries({"mac": st.binary(min_size=6, max_size=6).map(bytes.hex), "ads": st.just([]), "rawad": rawad.map(bytes.hex),
                                 "len_or": st.sampled_from([0, 0, 0, 0x40, 0x80, 0xC0])})
    return st.fixed_dictionaries({"kind": st.just("adv"), "hops": st.integers(0, 2), "packets": st.lists(pkt, min_size=1, max_size=3)})


def _raw_strategy():
    from hypothesis import strategies as st
    pkt = st.fixed_dictionaries({"payload": st.binary(min_size=32, max_size=32).map(bytes.hex)})
    return st.fixed_dictionaries({"kind": st.just("raw"), "hops": st.integers(0, 2), "packets": st.lists(pkt, min_size=1, max_size=3)})


BASE_PKTS = [
    {"mac": "a1b2c3d4e5f6", "ads": [[0x01, "05"], [0x0A, "fa"], [0x08, "6e5246"], [0x16, "0f1855"]]},
    {"mac": "0102030405ff", "ads": [[0x01, "05"], [0x16, "0918d6f5fffe"], [0xFF, "0011223344"]]},
]


def _flips(full):
    def gen():
        for bi, base in enumerate(BASE_PKTS if full else BASE_PKTS[:1]):
            for a in range(256):
                yield {"kind": "enc", "hops": bi % 3, "packets": [dict(base, flips=[a])]}
            for a in range(256):
                for b in range(a + 1, 256):
                    if full or (a * 7 + b) % 8 == 0:
                        yield {"kind": "enc", "hops": bi % 3, "packets": [dict(base, flips=[a, b])]}
    return gen


def decode_bytes(data):
    """atheris data provider: selector byte, then either 32 raw payload bytes or an AD area wrapped into a CRC-valid packet"""
    if len(data) < 2:
        return None
    sel = data[0]
    hops = sel % 3
    if sel & 0x80:
        return {"kind": "raw", "hops": hops, "packets": [{"payload": (bytes(data[1:33]) + bytes(32))[:32].hex()}]}
    return {"kind": "adv", "hops": hops, "packets": [{"mac": "c0ffee000001", "ads": [], "rawad": bytes(data[1:22]).hex()}]}


def seed_inputs():
    out = [bytes([0x00]) + ble.ad(0x16, b"\x0f\x18\x55") + ble.ad(0x08, b"nRF"), bytes([0x01]) + ble.ad(0x16, b"\x09\x18\xd6\xf5\xff\xfe"),
           bytes([0x02]) + ble.ad(0x16, b"\xaa\xfe\x10\xe7\x01abc\x07")]
    out.append(bytes([0x80]) + ble.encode_radio_payload(ble.build_pdu(MAC, [ble.ad(1, b"\x05")]), 37))
    return out


def _scanner_also_advertises(src):
    """the same strategy with the flag `rx_advertises` drawn for every case"""
    def source():
        from hypothesis import strategies as st
        return src().flatmap(lambda c: st.sampled_from([False, False, True]).map(lambda b: dict(c, rx_advertises=True) if b else c))
    return source


def parts(tier):
    q = tier == "quick"
    return [_p if _p.kind != "gen" or _p.name == "roundtrip" else Part(_p.name, "gen", _scanner_also_advertises(_p.source), n=_p.n) for _p in _parts(q)]


def _parts(q):
    return [
        Part("roundtrip", "gen", _rt_strategy, n=1500 if q else 60000),
        Part("independent-encoder", "gen", _enc_strategy, n=1500 if q else 60000),
        Part("bit-flips", "enum", _flips(not q), exhaustive=not q),
        Part("adversarial-ad", "gen", _adv_strategy, n=2000 if q else 80000),
        Part("raw-32-bytes", "gen", _raw_strategy, n=1000 if q else 40000),
        Part("atheris", "fuzz", lambda: {"decoder": "vlib.checks.c19_ble_rx:decode_bytes", "seconds": 12 if q else 600, "max_len": 40}, n=0),
    ]
