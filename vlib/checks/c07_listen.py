"""C07 - after any network operation the node listens again on all its addresses.

Every node of a drawn topology (RF24Network / routing-only family, or a mesh family with a
master) runs its update() loop as a task; a drawn history of public calls is executed inside
drawn nodes' tasks while a drawn loss pattern makes transmissions fail.  The invariant is
evaluated ON THE CHIP each time a public call - including every update() - returns on a node:
PWR_UP=1, PRIM_RX=1, CE high, all six pipes open on the reference addresses for the node's
current address / multicast level / multicast setting, EN_AA=0x3E, DYNPD=0x3F, EN_DPL set."""
from vlib.harness.runner import Result, Part, exc_signature
from vlib.ref import netaddr
from vlib.sim.core import MS, SimHorizon
from vlib.checks import c03_config
from vlib.checks.netutil import with_id0, Net

PROPERTY = "C07"
LEVEL = "exploration"
RULE = ("a case = a drawn topology (2..9 nodes; network family: RF24Network and routing-only nodes; mesh family: a master and 1..5 "
        "mesh nodes) with MCU timing models + a loss word applied cyclically to all data packets (D deliver / P lose packet / A lose "
        "ACK) + a history of 1..12 public calls on drawn nodes: write/send to existing, absent, own and invalid destinations (0..60 "
        "bytes, plain and acknowledged types), multicast to every level, node_address= (valid / invalid), multicast_level=, mesh "
        "renew_address / release_address / lookup_address / lookup_node_id / send / write / check_connection.  non-trivial = a step "
        "involved a failed transmission, a forward, a loop-back write, or a level / address change; distinct = SHA-1 of the case JSON")
ASSUMPTIONS = ["the invariant is read from the simulated chip at the instant a call returns inside the node's own task (no time passes)",
               "mesh renew_address() is given a 1.5 s timeout to keep cases short"]
SHRINK_LISTS = ("ops",)


def check_listening(ctl, what, problems):
    chip, node = ctl.chip, ctl.node
    a = node.node_address
    try:
        lvl = node.multicast_level
        mc = bool(node.allow_multicast)
    except Exception:  # noqa: BLE001
        lvl, mc = netaddr.level(a), True
    bad = None
    if not chip.powered():
        bad = ("powered-down", "PWR_UP=0")
    elif not chip.prim_rx():
        bad = ("left-in-tx-mode", "PRIM_RX=0")
    elif not chip.ce:
        bad = ("ce-low", "CE low")
    elif chip.reg[2] & 0x3F != 0x3F:
        bad = ("pipe-closed", "EN_RXADDR=0x%02X" % chip.reg[2])
    elif chip.reg[1] & 0x3F != 0x3E:
        bad = ("auto-ack-0x%02X" % chip.reg[1], "EN_AA=0x%02X, expected 0x3E" % chip.reg[1])
    elif chip.dynpd() & 0x3F != 0x3F or not chip.feature() & 4:
        bad = ("dynamic-payloads-off", "DYNPD=0x%02X FEATURE=0x%02X" % (chip.dynpd(), chip.feature()))
    else:
        want = netaddr.listening_addresses(a, mc, lvl)
        got = [chip.pipe_addr(p) for p in range(6)]
        for p in range(6):
            if got[p] != want[p]:
                bad = ("pipe0-address" if p == 0 else "pipe1-5-address", "pipe %d listens on %s, node 0o%o level %d expects %s" % (
                    p, got[p].hex(), a, lvl, want[p].hex()))
                break
    if bad:
        problems.append((bad[0], what, "node 0o%o after %s: %s" % (a, what, bad[1])))


class CyclicLoss:
    def __init__(self, word):
        self.word = word or "D"
        self.i = 0
        self.lost = 0

    def on_tx(self, pkt):
        if pkt.is_ack:
            return
        s = self.word[self.i % len(self.word)]
        self.i += 1
        if s == "P":
            pkt.drop = True
            self.lost += 1
        elif s == "A":
            pkt.drop_ack = True
            self.lost += 1


def run_case(case):
    res = Result()
    net = Net(horizon_ms=600_000, id0=case.get("id0", 0))
    loss = CyclicLoss(case.get("loss", "D"))
    net.med.fault = loss
    problems = []
    current = {"what": "start"}
    keys = []

    deaf = set()  # nodes whose application has itself taken the radio out of receive mode, until their next write()/send()

    def hook(ctl, kind):
        if ctl.key in deaf:
            return
        if kind == "update":
            check_listening(ctl, "update()" + current.get("during", ""), problems)
        else:
            check_listening(ctl, current["what"], problems)

    def main():
        for n in case["nodes"]:
            c = net.add(n["key"], n["kind"], n["arg"], mcu=n.get("mcu"))
            c.on_return = hook
            keys.append(n["key"])
            if n.get("mc_off"):
                c.node.allow_multicast = False
                c.node.node_address = n["arg"]
        net.start()
        net.sim.advance(3 * MS)
        L = net.L
        for op in case["ops"]:
            k = op[0]
            key = keys[op[1] % len(keys)]
            ctl = net.ctl[key]
            mesh = ctl.kind in ("mesh", "meshnm")
            fn = None
            if k in ("mc", "mclevel") and not ctl.node.allow_multicast:
                continue  # multicast calls on a node configured with allow_multicast off are outside the property
            if k == "write" and not mesh:
                dst, typ, n = op[2], op[3], op[4]
                fn = lambda node: node.write(L.Frame(L.Header(dst, typ), bytes(n))) if ctl.kind == "net" else None  # noqa: E731
            elif k == "send" and not mesh:
                dst, typ, n = op[2], op[3], op[4]
                fn = lambda node: node.send(L.Header(dst, typ), bytes(n)) if ctl.kind == "net" else None  # noqa: E731
            elif k == "mc":
                lvl, n = op[2], op[3]
                fn = lambda node: node.multicast(bytes(n), 1, lvl) if lvl is not None else node.multicast(bytes(n), 1)  # noqa: E731
            elif k == "addr" and not mesh:
                new = op[2]

                def fn(node, new=new):
                    node.node_address = new
            elif k == "mclevel":
                lv = op[2]

                def fn(node, lv=lv):
                    node.multicast_level = lv
            elif k == "mesh_renew" and mesh:
                fn = lambda node: node.renew_address(1.5)  # noqa: E731
            elif k == "mesh_release" and mesh:
                fn = lambda node: node.release_address()  # noqa: E731
            elif k == "mesh_lookup_addr" and mesh:
                fn = lambda node: node.lookup_address(op[2])  # noqa: E731
            elif k == "mesh_lookup_id" and mesh:
                fn = lambda node: node.lookup_node_id(op[2])  # noqa: E731
            elif k == "mesh_send" and mesh:
                fn = lambda node: node.send(op[2], op[3], bytes(op[4]))  # noqa: E731
            elif k == "mesh_write" and mesh:
                fn = lambda node: node.write(op[2], op[3], bytes(op[4]))  # noqa: E731
            elif k == "mesh_check" and mesh:
                fn = lambda node: node.check_connection(2, bool(op[2]))  # noqa: E731
            elif k == "cfg":
                # radio-level calls that every network object inherits and that are not meant to change the role: a
                # power cycle, re-asserting channel / data rate, PA level, a details report, a fragmentation toggle
                which = op[2] % 9

                def fn(node, which=which):
                    if which == 0:
                        node.power = False
                        node.power = True
                    elif which == 1:
                        node.channel = node.channel
                    elif which == 2:
                        node.pa_level = -12
                    elif which == 3:
                        c03_config.print_report(node, ["details", True])
                    elif which == 4:
                        node.fragmentation = False
                        node.fragmentation = True
                    elif which == 5:
                        node.data_rate = node.data_rate
                    elif which == 7:
                        node.set_dynamic_payloads(1)  # re-asserting what a network node needs anyway (0/1 for bool)
                    elif which == 8:
                        node.set_dynamic_payloads(True, 3)
                    else:
                        node.power = True
            elif k == "deaf" and not mesh:
                # the application itself stops listening or powers the radio down (outside the property); the property
                # speaks again when the node's next write()/send() returns - transmitted or looped back to itself
                deaf.add(key)
                how = op[2] % 2

                def fn(node, how=how):
                    if how:
                        node.power = False
                    else:
                        node.listen = False
            elif k == "idle":
                net.sim.advance(op[2] * MS)
                continue
            if key in deaf and k in ("write", "send") and fn is not None and ctl.kind == "net" and netaddr.is_valid(op[2]) \
                    and ctl.node.node_address != 0o4444:
                def fn(node, inner=fn, key=key):
                    deaf.discard(key)  # inside the node's own task: an update() still running when the call is posted is exempt
                    return inner(node)
                res.label("write-after-the-application-stopped-listening" + ("/to-itself" if op[2] == ctl.node.node_address else ""))
                res.nontrivial = True
            if fn is None:
                continue
            current["what"] = "%s%r on %s" % (k, tuple(op[2:]), ctl.kind)
            current["during"] = " (while %s runs elsewhere)" % k
            lost0, air0 = loss.lost, len(net.med.log)
            box = net.call(key, fn, timeout_ms=60000)
            if not box.get("done"):
                problems.append(("call-does-not-return", current["what"], current["what"]))
                break
            exc = box.get("exc")
            if exc is not None and not isinstance(exc, (ValueError, AttributeError, TypeError, IndexError)):
                problems.append(("call-raises-%s" % type(exc).__name__, current["what"], repr(exc)))
            net.settle(1500)
            current["during"] = ""
            if loss.lost > lost0 or len({e["src"] for e in net.med.log[air0:] if not e["ack"]}) > 1 or k in ("addr", "mclevel", "mesh_renew", "mesh_release"):
                res.nontrivial = True
            if k in ("write", "send") and op[2] == ctl.node.node_address:
                res.nontrivial = True
        net.settle(2000)
        for key, c in net.ctl.items():
            if key not in deaf:
                check_listening(c, "quiescence", problems)
        net.drain_queues()

    try:
        net.sim.run_main(main)
    except SimHorizon:
        res.fail("C07/does-not-terminate", "virtual-time horizon reached")
    except Exception as e:  # noqa: BLE001
        res.fail(exc_signature("C07/raises", e), repr(e))
        return res
    for k, exc, where in net.dead_tasks():
        res.fail(exc_signature("C07/node-raises", exc), "node %s died in %s: %r" % (k, where, exc))
    seen = set()
    for kind, what, msg in problems:
        op = what.split("(")[0].split(" ")[0]
        sig = "C07/%s/after-%s" % (kind, op)
        if sig not in seen:
            seen.add(sig)
            res.fail(sig, msg)
    res.label(case["family"], "lossy" if set(case.get("loss", "D")) - {"D"} else "loss-free")
    return res


def _strategy():
    from hypothesis import strategies as st
    mcu = st.one_of(st.none(), st.fixed_dictionaries({"spi": st.sampled_from([8, 20, 50, 100]), "jit": st.sampled_from([0, 30]),
                                                      "seed": st.integers(0, 9999), "poll": st.sampled_from([100, 500, 2000])}))
    loss = st.one_of(st.just("D"), st.text(alphabet="DDDPA", min_size=1, max_size=12), st.sampled_from(["P", "DP", "DDDDDDP", "A", "DA"]))
    dests = st.sampled_from([0, 0o1, 0o2, 0o3, 0o11, 0o21, 0o12, 0o111, 0o5, 0o55, 0o4444, 0o100, 0o6, 0o7777])
    typ = st.sampled_from([0, 1, 64, 65, 100, 127, 130, 193])
    ln = st.sampled_from([0, 1, 24, 25, 49, 60])

    @st.composite
    def net_case(draw):
        pop = [0]
        for _ in range(draw(st.integers(1, 8))):
            par = draw(st.sampled_from([p for p in pop if netaddr.level(p) < 4]))
            c = par | (draw(st.integers(1, 5)) << (3 * netaddr.level(par)))
            if c not in pop:
                pop.append(c)
        nodes = [{"key": a, "kind": draw(st.sampled_from(["net", "net", "net", "router"])), "arg": a, "mcu": draw(mcu),
                  "mc_off": draw(st.integers(0, 7)) == 0} for a in sorted(pop)]
        idx = st.integers(0, len(nodes) - 1)
        op = st.one_of(
            st.tuples(st.just("write"), idx, st.one_of(dests, st.sampled_from(pop)), typ, ln),
            st.tuples(st.just("write"), idx, st.sampled_from(pop), typ, ln),
            st.tuples(st.just("send"), idx, st.one_of(dests, st.sampled_from(pop)), typ, ln),
            st.tuples(st.just("mc"), idx, st.sampled_from([None, 0, 1, 2, 3, 4, -1, 5]), st.sampled_from([0, 5, 30])),
            st.tuples(st.just("addr"), idx, st.sampled_from([0o1, 0o2, 0o15, 0o314, 0o2345, 0o6, 0o70, 0o4444, 0o100])),
            st.tuples(st.just("mclevel"), idx, st.integers(-1, 5)),
            st.tuples(st.just("idle"), idx, st.sampled_from([1, 10])),
            st.tuples(st.just("cfg"), idx, st.integers(0, 8)),
            st.tuples(st.just("deaf"), idx, st.integers(0, 1)),
        ).map(list)
        return {"family": "net", "nodes": nodes, "loss": draw(loss), "ops": draw(st.lists(op, min_size=1, max_size=12))}

    @st.composite
    def mesh_case(draw):
        ids = draw(st.lists(st.integers(1, 255), min_size=1, max_size=5, unique=True))
        nodes = [{"key": "m", "kind": "mesh", "arg": 0, "mcu": draw(mcu)}]
        for i in ids:
            nodes.append({"key": "n%d" % i, "kind": draw(st.sampled_from(["mesh", "meshnm"])), "arg": i, "mcu": draw(mcu)})
        idx = st.integers(1, len(nodes) - 1)
        anyid = st.one_of(st.sampled_from(ids), st.integers(0, 255))
        op = st.one_of(
            st.tuples(st.just("mesh_renew"), idx), st.tuples(st.just("mesh_renew"), idx), st.tuples(st.just("mesh_release"), idx),
            st.tuples(st.just("mesh_lookup_addr"), idx, anyid), st.tuples(st.just("mesh_lookup_id"), idx, st.sampled_from([0, 0o1, 0o2, 0o5, 0o15, 0o4444])),
            st.tuples(st.just("mesh_send"), idx, anyid, typ, ln), st.tuples(st.just("mesh_write"), idx, dests, typ, ln),
            st.tuples(st.just("mesh_check"), idx, st.booleans()), st.tuples(st.just("mc"), idx, st.sampled_from([None, 0, 1, 2]), st.sampled_from([0, 5])),
            st.tuples(st.just("mclevel"), idx, st.integers(0, 4)),
            st.tuples(st.just("mesh_lookup_addr"), st.just(0), anyid), st.tuples(st.just("mesh_send"), st.just(0), anyid, typ, ln),
            st.tuples(st.just("cfg"), st.integers(0, len(nodes) - 1), st.integers(0, 8)),
        ).map(list)
        ops = [["mesh_renew", k] for k in range(1, len(nodes)) if draw(st.booleans())] + draw(st.lists(op, min_size=1, max_size=8))
        return {"family": "mesh", "nodes": nodes, "loss": draw(loss), "ops": ops}

    return st.one_of(net_case(), net_case(), mesh_case())


def _enum_deaf():
    """the application stops listening (or powers the radio down), then writes: to itself, to its parent, to a child, through
    its parent, to nobody; plain, acknowledged and fragmented; every transmission delivered or every one lost"""
    nodes = [{"key": a, "kind": "net", "arg": a, "mcu": None} for a in (0, 0o1, 0o11, 0o2)]
    for who in (0, 1):
        own = nodes[who]["arg"]
        for how in (0, 1):
            for call in ("write", "send"):
                for dst in (own, 0, 0o1, 0o11, 0o2, 0o31):
                    for typ, ln in ((0, 5), (65, 5), (0, 30), (100, 60)):
                        for loss in ("D", "P"):
                            yield {"family": "net", "nodes": nodes, "loss": loss,
                                   "ops": [["deaf", who, how], [call, who, dst, typ, ln], ["idle", 0, 1], [call, who, dst, typ, ln]]}


def _parts(tier):
    if tier == "quick":
        return [Part("deaf-then-write", "enum", _enum_deaf, exhaustive=True), Part("generated", "gen", _strategy, n=240)]
    return [Part("deaf-then-write", "enum", _enum_deaf, exhaustive=True), Part("generated", "gen", _strategy, n=6000)]


def parts(tier):
    # every case also carries a starting value of the 16-bit frame-id counter (netutil.with_id0)
    return [with_id0(p) for p in _parts(tier)]
