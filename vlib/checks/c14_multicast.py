"""C14 - a multicast reaches exactly the chosen network level, unacknowledged.

Populated drawn topologies, every node with its own update() task; one multicast() per
case.  Oracle after quiescence: every OTHER node whose reference pipe-0 address is the
target level's shared address and which allows multicast holds the message exactly once,
nobody else holds it; on air the original went to the reference level address with a single
attempt per frame and no ACK packet was emitted by anyone; relays (levels 1..3) re-broadcast
to the next level and still queue the frame; nodes with allow_multicast off do not listen on
a shared level address."""
from vlib.harness.runner import Result, Part, exc_signature
from vlib.ref import netaddr, frag as rfrag
from vlib.sim.core import MS, SimHorizon
from vlib.checks.netutil import with_id0, Net, air_frames

PROPERTY = "C14"
LEVEL = "exploration"
RULE = ("a case = 6..20 drawn nodes over levels 0..4 (parent-closed), per node allow_multicast on/off, multicast_relay on/off and "
        "optionally an overridden multicast_level, optionally re-addressed from another address/level before the run, MCU timing models; one multicast() from a sender of class {master, 0o1, other "
        "level-1, level 2..4} to level None/0..4 (and -1, 5 for the clamp) with a message of 0..144 bytes (relay scenarios: <= 24 "
        "bytes).  non-trivial = at least 2 receivers on the target level and at least one node on another level; "
        "distinct = SHA-1 of the case JSON")
ASSUMPTIONS = ["a relay that took k > 1 copies of one frame (several relays above it) may re-broadcast between 1 and k times - "
               "demanding 'once per frame id' would exceed the statement's single-receiver wording",
               "'unacknowledged' is judged as: one attempt per frame by the sender and no ACK packet on air"]


def run_relay_frames(case):
    """the relay clause at frame granularity: a node of level 1..3 with multicast_relay on receives multicast frames one at
    a time (well spaced) on its level address - plain frames and the first / middle / last fragments of longer multicasts -
    and must re-broadcast each once, byte for byte, unacknowledged, to the next level's address"""
    import struct
    from vlib import boot
    from vlib.checks import c15_robust
    from vlib.sim.core import Sim, Mcu, US
    from vlib.sim.radio import Chip, Medium
    from vlib.sim.selftest import Raw
    L = boot.lib()
    res = Result()
    sim = Sim(horizon_ns=60_000 * MS, mcu=Mcu(spi_base=case.get("spi", 20) * US, clock=20 * US))
    med = Medium(sim)
    level = case["level"]
    node, chip, addr = c15_robust.make_node(L, sim, med, case.get("role", "net"), level, [])
    node.multicast_relay = True
    X = Chip(sim, med, "X")
    x = Raw(sim, X)
    for reg, val in ((0, 0x0E), (1, 0x3F), (2, 0x01), (3, 3), (4, 0x12), (5, 76), (6, 0x07), (0x1D, 0x05), (0x1C, 0x3F)):
        x.w(reg, val)
    sim.advance(3 * MS)
    a0 = bytes(chip.pipe_addr(0))
    nxt = netaddr.level_address(level + 1)
    spec = {"plain": (case["type"], 0), "first": (148, 3), "more": (149, 2), "last": (150, case["type"])}
    try:
        for i, kind in enumerate(case["frames"]):
            t, r = spec[kind]
            body = bytes([0x30 + i]) * (24 if kind in ("first", "more") else case["tail"])
            data = struct.pack("<HHHBB", case["origin"], 0o100, 7, t, r) + body
            n0 = len(med.log)
            x.ce(False)
            x.w(7, 0x70)
            x.x(0xE1)
            x.w(0x0A, *a0)
            x.w(0x10, *a0)
            x.x(0xB0, *data)
            x.ce(True)
            sim.advance(3 * MS)
            x.ce(False)
            for _ in range(3):
                node.update()
            sim.advance(20 * MS)
            sent = [e for e in med.log[n0:] if e["src"] == "N" and not e["ack"]]
            acks = [e for e in med.log[n0:] if e["ack"]]
            if acks:
                res.fail("C14/multicast-acknowledged", "an ACK packet went on air for a multicast frame (%s)" % kind)
            if len(sent) != 1:
                res.fail("C14/relay-count/" + kind, "level-%d relay took one %s frame and transmitted %d times" % (level, kind, len(sent)))
                continue
            e = sent[0]
            if e["addr"] != nxt:
                res.fail("C14/relay-wrong-level", "level-%d relay re-broadcast a %s frame to %s" % (level, kind, e["addr"].hex()))
            if e["pl"] != data:
                res.fail("C14/relayed-frame-differs/" + kind, "level-%d relay took %s and re-broadcast %s" % (level, data[:8].hex(), e["pl"][:8].hex()))
            while len(node.queue):
                node.queue.dequeue()
    except Exception as e:  # noqa: BLE001
        res.fail(exc_signature("C14/raises", e), repr(e))
    res.nontrivial = True
    res.label("relay-frame-by-frame")
    return res


def run_case(case):
    if case.get("kind") == "relay-frames":
        return run_relay_frames(case)
    res = Result()
    net = Net(horizon_ms=120_000, id0=case.get("id0", 0))
    snd, lvl_arg = case["sender"], case["level"]
    msg = bytes.fromhex(case["msg"])
    typ = case["type"]
    out = {}
    spec = {n["addr"]: n for n in case["nodes"]}

    def main():
        for n in case["nodes"]:
            c = net.add(n["addr"], n.get("kind", "net"), n["addr"] if n.get("was") is None else n["was"], mcu=n.get("mcu"))
            if n.get("was") is not None:
                c.node.node_address = n["addr"]  # the node had another address (and level) before: re-addressed by its application
            if not n.get("mc", True):
                c.node.allow_multicast = False
                c.node.node_address = n["addr"]
            if n.get("mc_level") is not None and n.get("mc", True):
                c.node.multicast_level = n["mc_level"]
            if n.get("relay"):
                c.node.multicast_relay = True
        net.start()
        net.sim.advance(3 * MS)
        # history before the multicast: routed acknowledged writes by some nodes (they leave the NETWORK_ACK wait branch)
        L = net.L
        for ps, pd, pt in case.get("pre_writes", []):
            if ps in net.ctl and pd in net.ctl and ps != pd:
                net.call(ps, lambda node, pd=pd, pt=pt: node.write(L.Frame(L.Header(pd, pt), b"pre")), timeout_ms=20000)
                net.settle(2000)
        pp = case.get("pre_partial")
        if pp and pp["src"] in net.ctl:
            # history: an earlier fragmented multicast of ANOTHER node lost its last fragment on the air; every receiver is left
            # with a half-built message, which must not keep the next sender's multicast out
            class DropLast:
                def on_tx(self, pkt):
                    if not pkt.is_ack and pkt.src.name == str(pp["src"]) and len(pkt.payload) >= 8 and pkt.payload[6] == 150:
                        pkt.drop = True
            net.med.fault = DropLast()
            net.call(pp["src"], lambda node: node.multicast(bytes((3 * i) & 0xFF for i in range(pp["len"])), 9, pp["level"]), timeout_ms=20000)
            net.settle(2000)
            net.med.fault = None
            res.label("after-an-incomplete-multicast-of-another-node")
        net.drain_queues()
        # relays whose application has not read its queue: 6 unrelated frames are pending
        for a in case.get("full_queue", []):
            if a in net.ctl:
                for i in range(6):
                    f = L.Frame(L.Header(a, 126), b"dummy")
                    f.header.from_node, f.header.frame_id = 0o5, 60000 + i
                    net.ctl[a].node.queue.enqueue(f)
        n_log0 = len(net.med.log)
        out["n_log0"] = n_log0
        out["regs"] = {a: (c.chip.pipe_addr(0), c.chip.reg[2] & 1) for a, c in net.ctl.items()}

        def do(node):
            if lvl_arg == "default":
                return node.multicast(msg, typ)
            return node.multicast(msg, typ, lvl_arg)

        racing = case.get("racing_writes") or []
        if racing:
            # a member's application starts a write to an absent node around the moment the multicast lands in its radio
            lead0 = min(0, min(r[2] for r in racing))
            boxes = []
            t_mc = net.sim.now - lead0 * 1000
            pending = sorted([(t_mc, "mc", None)] + [(t_mc + r[2] * 1000, "w", r) for r in racing], key=lambda x: x[0])
            for t, what, r in pending:
                if t > net.sim.now:
                    net.sim.advance(t - net.sim.now)
                if what == "mc":
                    out["box"] = net.post(snd, do)
                else:
                    boxes.append(net.post(r[0], lambda node, r=r: node.write(L.Frame(L.Header(r[1], 1), b"race"))))
            net.wait(lambda: out["box"]["done"] and all(b["done"] for b in boxes), 30000)
        else:
            out["box"] = net.call(snd, do, timeout_ms=20000)
        net.settle(3000, quiet_ms=40)
        out["queues"] = {a: [f for f in q if not (f[3] == 126 and f[5] == b"dummy")] for a, q in net.drain_queues().items()}
        out["overflow"] = {a: c.chip.fifo_overflows for a, c in net.ctl.items()}

    try:
        net.sim.run_main(main)
    except SimHorizon:
        res.fail("C14/does-not-terminate", "virtual-time horizon reached")
        return res
    except Exception as e:  # noqa: BLE001
        res.fail(exc_signature("C14/raises", e), repr(e))
        return res
    for k, exc, where in net.dead_tasks():
        res.fail(exc_signature("C14/node-raises", exc), "node %o died in %s: %r" % (k, where, exc))
    box = out.get("box", {})
    if not box.get("done") or "exc" in box:
        res.fail("C14/multicast-call-failed", repr(box.get("exc", "did not return")))
        return res
    # effective levels
    def eff_level(n):
        return n["mc_level"] if n.get("mc_level") is not None and n.get("mc", True) else netaddr.level(n["addr"])
    target = eff_level(spec[snd]) if lvl_arg == "default" else min(4, max(0, lvl_arg))
    level_addrs = {netaddr.level_address(lv): lv for lv in range(5)}
    # nodes with allow_multicast off must not listen on a shared level address
    for a, (p0, open0) in out["regs"].items():
        n = spec[a]
        if not n.get("mc", True) and open0 and p0 in level_addrs and p0 != netaddr.pipe_address(a, 0, False):
            res.fail("C14/multicast-off-listens-on-level-address", "node %o (allow_multicast off) listens on level %d's address" % (a, level_addrs[p0]))
        if n.get("mc", True) and p0 != netaddr.level_address(eff_level(n)):
            res.fail("C14/level-address-wrong", "node %o pipe 0 on %s, its level is %d" % (a, p0.hex(), eff_level(n)))
    any_relay = any(n.get("relay") and n.get("mc", True) for n in case["nodes"])
    members = [a for a, n in spec.items() if a != snd and n.get("mc", True) and eff_level(n) == target and n.get("kind", "net") == "net"]
    others = [a for a in spec if a != snd and a not in members]
    if len(members) >= 2 and others:
        res.nontrivial = True
    sender_tag = "master" if snd == 0 else ("0o1" if snd == 1 else "level%d" % netaddr.level(snd))
    del net.med.log[:out.get("n_log0", 0)]
    frames = air_frames(net.med, merge_all=False)
    want_frames = rfrag.fragment(snd, 0o100, 0, typ, msg)
    mine = [f for f in frames if f["src"] == str(snd)]
    if any_relay:
        mine = mine[:len(want_frames)]  # later frames of the sender are its own relaying of copies that came back
    # ---- on air
    if members or True:
        want_addr = netaddr.level_address(target)
        if not mine and members:
            res.fail("C14/not-transmitted/level%d-from-%s" % (target, sender_tag), "multicast(level=%r) from %o put nothing on air" % (lvl_arg, snd))
        for f in mine:
            if f["addr"] != want_addr:
                res.fail("C14/wrong-level-address/level%d" % target, "multicast(level=%r) from %o went to %s, level %d address is %s" % (
                    lvl_arg, snd, f["addr"].hex(), target, want_addr.hex()))
                break
            if f["attempts"] != 1:
                res.fail("C14/multicast-retransmitted", "the sender made %d attempts for one multicast frame (it waited for an ACK)" % f["attempts"])
                break
        if mine and len(mine) != len(want_frames):
            res.fail("C14/frame-count", "%d frames on air for a %d byte message, expected %d" % (len(mine), len(msg), len(want_frames)))
    # radio ACKs that answer a frame of the multicasting node (a racing unicast of another node is acknowledged, rightly)
    by_n = {e["n"]: e for e in net.med.log}
    acks = [e for e in net.med.log if e["ack"] and (e.get("ack_of") not in by_n or by_n[e["ack_of"]]["src"] == str(snd))]
    if acks:
        res.fail("C14/multicast-acknowledged", "node %s sent a radio ACK for a multicast" % acks[0]["src"])
    if box["result"] is not True:
        res.fail("C14/multicast-returns-false", "multicast() returned %r" % (box["result"],))
    # ---- reception
    def holds(a):
        return [f for f in out["queues"].get(a, []) if f[0] == snd and f[3] == typ and f[5] == msg]
    # an unacknowledged burst of fragments can overrun a slow receiver's 3-level RX FIFO: that node lost a packet,
    # the reception clause is not judged for it (the count is reported)
    overrun = {a for a, k in out["overflow"].items() if k}
    if overrun:
        res.label("receiver-fifo-overrun")
    racing_nodes = {r[0] for r in case.get("racing_writes") or []}
    if racing_nodes:
        res.label("write-racing-the-multicast")

    def took_all(a):
        mc = [e for e in net.med.log if not e["ack"] and e["src"] == str(snd) and len(e["pl"]) >= 8 and (e["pl"][2] | (e["pl"][3] << 8)) == 0o100]
        pls = {e["pl"] for e in mc}
        return bool(pls) and all(any(str(a) in e["rx"] for e in mc if e["pl"] == pl) for pl in pls)

    if not any_relay:
        for a in members:
            k = len(holds(a))
            if (a in overrun or a in case.get("full_queue", [])) and k == 0:
                continue
            if racing_nodes and k == 0 and not took_all(a):
                # the racing node's radio was in TX mode when the multicast passed (not a listening node), or its
                # transmissions overlapped the unacknowledged multicast at this receiver: whoever's radio did take every
                # frame must hold the message, the others are not judged
                res.label("multicast-not-taken-during-the-race")
                continue
            if k != 1:
                res.fail("C14/%s/level%d-from-%s" % ("not-received" if k == 0 else "received-twice", target, sender_tag),
                         "node %o of level %d holds the multicast %d times" % (a, target, k))
                break
        for a in others + [snd]:
            if out["queues"].get(a):
                f = out["queues"][a][0]
                why = "sender-itself" if a == snd else ("multicast-off-node" if not spec[a].get("mc", True) else "other-level")
                res.fail("C14/received-by-%s" % why, "node %o (level %d) queued a frame from %o type %d; target level was %d" % (
                    a, eff_level(spec[a]), f[0], f[3], target))
                break
    else:
        res.label("relay")
        # relay clause: a relay that queued the frame re-broadcast it to the next level and kept it
        for a in members:
            n = spec[a]
            if not (n.get("relay") and 1 <= eff_level(n) <= 3):
                continue
            copies = sum(1 for e in net.med.log if not e["ack"] and str(a) in e["rx"] and e["pl"][8:] == msg)
            rebroadcasts = [f for f in frames if f["src"] == str(a) and f["pl"][8:] == msg]
            if copies >= 1:
                if not 1 <= len(rebroadcasts) <= copies:
                    res.fail("C14/relay-count", "relay %o took %d copies and re-broadcast %d times" % (a, copies, len(rebroadcasts)))
                elif any(f["addr"] != netaddr.level_address(eff_level(n) + 1) for f in rebroadcasts):
                    res.fail("C14/relay-wrong-level", "relay %o (level %d) re-broadcast to %s" % (a, eff_level(n), rebroadcasts[0]["addr"].hex()))
                if len(holds(a)) != 1 and a not in case.get("full_queue", []):
                    res.fail("C14/relay-does-not-queue", "relay %o holds the multicast %d times" % (a, len(holds(a))))
        for a in members:
            if a in overrun or a in case.get("full_queue", []):
                continue
            if len(holds(a)) != 1 and not spec[a].get("relay"):
                res.fail("C14/not-received/level%d-from-%s" % (target, sender_tag), "node %o holds the multicast %d times" % (a, len(holds(a))))
                break
        for a, n in spec.items():
            if not n.get("mc", True) and out["queues"].get(a):
                res.fail("C14/received-by-multicast-off-node", "node %o" % a)
        # levels the message can legitimately reach: the target level, and the level after each level 1..3 that has a
        # relaying member (the statement's relay clause); a node of any other level must not hold it
        reach = {target}
        for lv in (1, 2, 3):
            if lv in reach and any(n.get("relay") and n.get("mc", True) and eff_level(n) == lv and (a != snd or lv != target)
                                   for a, n in spec.items()):
                reach.add(lv + 1)
        for a, n in spec.items():
            if a != snd and n.get("mc", True) and eff_level(n) not in reach and holds(a):
                res.fail("C14/relayed-to-wrong-level", "node %o (level %d) holds the multicast; target level %d, relays can carry it to %s"
                         % (a, eff_level(n), target, sorted(reach)))
                break
    res.label("target%d" % target, sender_tag, "len>24" if len(msg) > 24 else "len<=24")
    return res


def _strategy():
    from hypothesis import strategies as st

    @st.composite
    def case(draw):
        pop = [0]
        # make sure several levels are populated
        for _ in range(draw(st.integers(5, 19))):
            par = draw(st.sampled_from([p for p in pop if netaddr.level(p) < 4]))
            c = par | (draw(st.integers(1, 5)) << (3 * netaddr.level(par)))
            if c not in pop:
                pop.append(c)
        if draw(st.booleans()) and 0o1 not in pop:
            pop.append(0o1)
        relay_case = draw(st.integers(0, 3)) == 0
        mcu = st.one_of(st.none(), st.fixed_dictionaries({"spi": st.sampled_from([8, 20, 50, 100]), "jit": st.sampled_from([0, 30]),
                                                          "seed": st.integers(0, 9999), "poll": st.sampled_from([100, 500, 2000])}))
        nodes = []
        for a in sorted(pop):
            # (the master's own pipe-0 address IS the level-0 address, so it cannot opt out of level-0 multicasts)
            n = {"addr": a, "kind": "net", "mcu": draw(mcu), "mc": a == 0 or draw(st.integers(0, 6)) != 0}
            if relay_case and draw(st.booleans()):
                n["relay"] = True
            if draw(st.integers(0, 9)) == 0:
                n["mc_level"] = draw(st.integers(0, 4))
            if draw(st.integers(0, 4)) == 0:
                was = draw(st.sampled_from([0o4444, 0, 0o5, 0o15, 0o125, 0o3125]))
                if was != a:
                    n["was"] = was
            nodes.append(n)
        cand = [n for n in nodes if n["mc"]]
        if not cand:
            nodes[0]["mc"] = True
            cand = [nodes[0]]
        pref = [n for n in cand if n["addr"] in (0, 0o1)]
        snd = draw(st.sampled_from(pref)) if pref and draw(st.booleans()) else draw(st.sampled_from(cand))
        snd.pop("mc_level", None) if draw(st.booleans()) else None
        level = draw(st.sampled_from(["default", "default", 0, 1, 2, 3, 4, 4, -1, 5]))
        maxlen = 24 if relay_case else 144
        n = draw(st.one_of(st.integers(0, maxlen), st.sampled_from([0, 1, 24] + ([] if relay_case else [25, 48, 144]))))
        pre = []
        if draw(st.integers(0, 2)) == 0:
            for _ in range(draw(st.integers(1, 2))):
                a1, a2 = draw(st.sampled_from(sorted(pop))), draw(st.sampled_from(sorted(pop)))
                pre.append([a1, a2, draw(st.sampled_from([65, 100, 3]))])
        fullq = [n2["addr"] for n2 in nodes if n2.get("relay") and draw(st.integers(0, 2)) == 0]
        return {"nodes": nodes, "sender": snd["addr"], "level": level, "type": draw(st.sampled_from([0, 1, 64, 65, 100, 127])),
                "msg": draw(st.binary(min_size=n, max_size=n)).hex(), "pre_writes": pre, "full_queue": fullq}

    return case()


def _enum():
    """every sender class x every target level on one fixed populated topology"""
    pop = [0, 0o1, 0o2, 0o3, 0o11, 0o21, 0o12, 0o111, 0o211, 0o112, 0o1111, 0o2111, 0o1112]
    nodes = [{"addr": a, "kind": "net", "mc": True} for a in pop]
    for snd in (0, 0o1, 0o2, 0o11, 0o12, 0o111, 0o1111):
        for level in ("default", 0, 1, 2, 3, 4, -1, 5):
            for msg in ("", "6d63", "55" * 30):
                yield {"nodes": nodes, "sender": snd, "level": level, "type": 1, "msg": msg}
            # the same population after every node was re-addressed (from the mesh default address / from a level-2 address)
            for was in (0o4444, 0o15):
                yield {"nodes": [dict(n, was=was) for n in nodes], "sender": snd, "level": level, "type": 1, "msg": "6d63"}


def _enum_history():
    """a routed acknowledged write by a level member (timing out or acknowledged) before the multicast; relays with a full queue"""
    pop = [0, 0o1, 0o2, 0o3, 0o11, 0o21, 0o12, 0o111]
    nodes = [{"addr": a, "kind": "net", "mc": True} for a in pop]
    for pre in ([[0o2, 0o1, 100]], [[0o2, 0o5, 100]], [[0o11, 0o2, 65]], [[0o1, 0o12, 127], [0o3, 0o21, 66]]):
        for snd, level in ((0, 1), (0o3, 1), (0o1, 2), (0, 2), (0o12, "default")):
            yield {"nodes": nodes, "sender": snd, "level": level, "type": 1, "msg": "6d63", "pre_writes": pre, "full_queue": []}
    # relays on every level incl. 0 and 4 (the statement makes levels 1..3 re-broadcast; nothing may leak from the others)
    pop4 = pop + [0o1111, 0o2111, 0o211]
    allrelay = [{"addr": a, "kind": "net", "mc": True, "relay": True} for a in pop4]
    for snd, level in ((0, 4), (0o111, 4), (0o1111, "default"), (0, 3), (0o1, 0), (0o2111, 0), (0, 1)):
        yield {"nodes": allrelay, "sender": snd, "level": level, "type": 1, "msg": "616c6c", "pre_writes": [], "full_queue": []}
    rnodes = [dict(n, relay=n["addr"] in (0o1, 0o2, 0o11)) for n in nodes]
    for fullq in ([], [0o1], [0o1, 0o2], [0o11]):
        for snd, level in ((0, 1), (0o3, 1), (0o1, 2), (0o111, 1)):
            yield {"nodes": rnodes, "sender": snd, "level": level, "type": 1, "msg": "72656c6179", "pre_writes": [], "full_queue": fullq}


def _enum_after_partial():
    """the judged multicast (single-frame and fragmented) follows another node's fragmented multicast whose last fragment was lost"""
    pop = [0, 0o1, 0o2, 0o3, 0o12]
    nodes = [{"addr": a, "kind": "net", "mc": True} for a in pop]
    for psrc, plen in ((0o1, 60), (0o2, 30), (0o1, 100)):
        for snd in (0, 0o3):
            for msg in ("6d63", "51" * 40, "52" * 72):
                yield {"nodes": nodes, "sender": snd, "level": 1, "type": 1, "msg": msg, "pre_partial": {"src": psrc, "len": plen, "level": 1}}


def _enum_racing(step):
    """a level-1 member with a slow application loop starts a write to an absent child while the multicast lands: its start
    is swept from 2 ms before to 4 ms after the multicast call"""
    def gen():
        pop = [0, 0o1, 0o2, 0o3, 0o12]
        for poll in (500, 3000):
            for lead in range(-2000, 4001, step):
                nodes = [{"addr": a, "kind": "net", "mc": True, "mcu": {"spi": 20, "jit": 0, "seed": 3, "poll": poll} if a == 0o2 else None} for a in pop]
                for msg in ("6d63", "55" * 30):
                    yield {"nodes": nodes, "sender": 0, "level": 1, "type": 1, "msg": msg, "racing_writes": [[0o2, 0o42, lead]]}
                # the member's child writes to the member around the same moment: the multicast and a unicast on another
                # pipe sit in the member's RX FIFO together before its application gets round to update()
                yield {"nodes": nodes, "sender": 0, "level": 1, "type": 1, "msg": "6d63", "racing_writes": [[0o12, 0o2, lead]]}
    return gen


def _enum_relay_frames():
    import itertools
    for level in (1, 2, 3):
        for role in ("net", "meshnode"):
            for typ in (0, 65, 127):
                for tail in (0, 7, 24):
                    for origin in (0, 0o5, 0o45):
                        for w in itertools.chain(itertools.product(("plain", "first", "more", "last"), repeat=1), (("first", "more", "last"), ("first", "last"),
                                                 ("last", "last"), ("first", "first", "last"), ("plain", "first", "plain", "more", "last"))):
                            yield {"kind": "relay-frames", "level": level, "role": role, "type": typ, "tail": tail, "origin": origin, "frames": list(w)}


def _parts(tier):
    if tier == "quick":
        return [Part("relay-frame-by-frame", "enum", _enum_relay_frames, exhaustive=True), Part("enum-sender-class-x-level", "enum", _enum, exhaustive=True), Part("write-racing-the-multicast-sweep", "enum", _enum_racing(250), exhaustive=True), Part("enum-history-and-relays", "enum", _enum_history, exhaustive=True),
                Part("after-an-incomplete-multicast", "enum", _enum_after_partial, exhaustive=True), Part("generated", "gen", _strategy, n=300)]
    return [Part("relay-frame-by-frame", "enum", _enum_relay_frames, exhaustive=True), Part("enum-sender-class-x-level", "enum", _enum, exhaustive=True), Part("write-racing-the-multicast-sweep", "enum", _enum_racing(50), exhaustive=True),
            Part("enum-history-and-relays", "enum", _enum_history, exhaustive=True), Part("after-an-incomplete-multicast", "enum", _enum_after_partial, exhaustive=True),
            Part("generated", "gen", _strategy, n=15000)]


def parts(tier):
    # every case also carries a starting value of the 16-bit frame-id counter (netutil.with_id0)
    return [with_id0(p) for p in _parts(tier)]
