"""C08 - RX/TX switching preserves the user's pipe-0 address and ACK reception.

Oracle: reference model of "the user's pipe 0" (vlib.ref.regs.RegModel: last
open_rx_pipe(0, X) overlaid on the register's previous content, cleared by close_rx_pipe(0))
compared with the chip's registers after every call, plus two behavioural probes at the end
of the sequence: a raw packet sent to the user's address must arrive on pipe 0, and after
open_tx_pipe() in TX mode with auto-ack on, send() to a listening peer must return True.
CE/role-change discipline is read from the chip's pin and register trace.
The same module serves C20 with drv='lite'."""
import itertools

from vlib.harness.runner import Result, Part, exc_signature
from vlib.ref.regs import RegModel
from vlib.sim.core import Sim, US, MS, SimHorizon
from vlib.sim.radio import Chip, Medium
from vlib.sim.selftest import Raw
from vlib.checks.linkutil import mk_radio

PROPERTY = "C08"
LEVEL = "exploration"
RULE = ("a case = address width 3..5 + a sequence over {open_rx_pipe(0,A), open_rx_pipe(0,A'), open_rx_pipe(0,short), "
        "open_rx_pipe(1,B), close_rx_pipe(0), close_rx_pipe(1), open_tx_pipe(A), open_tx_pipe(T), open_tx_pipe(T' sharing "
        "A's first bytes), auto_ack on/off/pipe0-off, listen=True, listen=False}; every sequence to the stated depth is "
        "enumerated (breadth first), Hypothesis sequences to length 40 beyond it.  non-trivial = the sequence has an "
        "open_tx_pipe between a pipe-0 open and an RX entry, or closes pipe 0; distinct = SHA-1 of the case JSON")
ASSUMPTIONS = ["(b) of DESIGN 2.6: a PTX receives its ACK only if ERX_P0 is set and RX_ADDR_P0 equals TX_ADDR; the property "
               "statement itself requires pipe 0 to be open on the TX address",
               "the user's pipe-0 address is the full register content in effect after open_rx_pipe(0, X) (short X overlays)"]
SHRINK_LISTS = ("ops",)
PREFIX = "C08"

ADDR = {"A": "a1a2a3a4a5", "A2": "b1b2b3b4b5", "As": "c1c2", "B": "d1d2d3d4d5", "T": "7172737475", "Tp": "a1a27375f5",
        "Ts": "e1e2e3"}


def regs_now(chip):
    return chip.regfile()


def run_case(case, prefix=None):
    P = prefix or PREFIX
    res = Result()
    drv = case.get("drv", "full")
    lite = drv == "lite"
    sim = Sim()
    med = Medium(sim)
    chip = Chip(sim, med, "D")
    probe = Chip(sim, med, "X")
    r = mk_radio(drv, chip)
    aw = case["aw"]
    r.address_length = aw
    model = RegModel(chip.regfile(), lite=lite)
    seen_p0_open = False
    after_ctx = False
    tx_after_open = False
    last = None
    try:
        for op in case["ops"]:
            k = op[0]
            if k == "orx":
                buf = bytearray.fromhex(ADDR[op[2]])  # the application's own buffer, reused by it for something else right away
                r.open_rx_pipe(op[1], buf)
                for i in range(len(buf)):
                    buf[i] ^= 0xFF
                model.apply(["open_rx_pipe", op[1], bytes.fromhex(ADDR[op[2]])])
                if op[1] == 0:
                    seen_p0_open = True
            elif k == "bad":
                # a call the driver refuses (the application catches the exception and carries on): nothing may change,
                # in particular the radio must not be left in RX mode with CE low
                try:
                    if op[1] == "orx-pipe6":
                        r.open_rx_pipe(6, bytes.fromhex(ADDR["B"]))
                    elif op[1] == "orx-pipe-1":
                        r.open_rx_pipe(-1, bytes.fromhex(ADDR["B"]))
                    elif op[1] == "orx-empty":
                        r.open_rx_pipe(op[2], b"")
                    elif op[1] == "crx-pipe6":
                        r.close_rx_pipe(6)
                    refused = False
                except (IndexError, ValueError):
                    refused = True
                if not refused:
                    res.inconclusive = "%r was not refused (documented or not, outside C08)" % (op,)
                    return res
                res.label("refused-call")
            elif k == "crx":
                r.close_rx_pipe(op[1])
                model.apply(["close_rx_pipe", op[1]])
                if op[1] == 0:
                    res.nontrivial = True
            elif k == "otx":
                buf = bytearray.fromhex(ADDR[op[1]])
                r.open_tx_pipe(buf)
                for i in range(len(buf)):
                    buf[i] ^= 0xFF
                model.apply(["open_tx_pipe", bytes.fromhex(ADDR[op[1]])])
                if seen_p0_open:
                    tx_after_open = True
            elif k == "aa":
                if lite:
                    continue
                v = {"on": True, "off": False, "p0off": 0x3E}[op[1]]
                r.auto_ack = v
                model.apply(["auto_ack", v])
            elif k == "send":
                # a transmission (nobody acknowledges): send() leaves CE high, the next role change starts from there
                if regs_now(chip)[0] & 3 != 2:
                    continue  # send() is for a powered-up radio in TX mode
                sim.horizon = sim.now + 500 * MS
                try:
                    r.send(b"c08")
                except SimHorizon:
                    res.inconclusive = "send() did not return after %r (not a pipe-0 matter; see DESIGN 6.1)" % (case["ops"],)
                    return res
            elif k == "ctx":
                if lite:
                    continue  # rf24_lite has no context manager
                r.__exit__(None, None, None)  # the object's with-block ends and is entered again: the radio is powered down
                r.__enter__()                 # and up, in the role it had
                model.apply(["ctx"])
            elif k == "ack":
                r.ack = bool(op[1])  # enabling ACK payloads switches auto-ack on pipe 0 back on (documented)
                model.apply(["ack", bool(op[1])])
            elif k == "power":
                # a sleep / wake cycle inside the current role: waking up in the RX role means listening again (CE high)
                r.power = bool(op[1])
                model.apply(["power", bool(op[1])])
            elif k == "listen":
                r.listen = bool(op[1])
                model.apply(["listen", bool(op[1])])
                if op[1] and tx_after_open:
                    res.nontrivial = True
            last = op
            regs = chip.regfile()
            # (1) entering RX mode
            if k == "listen" and op[1]:
                if model.user_p0 is not None:
                    if not regs[2] & 1:
                        res.fail(P + "/rx-entry-pipe0-closed", "user opened pipe 0 but it is closed after listen=True")
                    elif bytes(regs[0x0A][:aw]) != model.user_p0[:aw]:
                        what = "the TX address" if bytes(regs[0x0A][:aw]) == bytes(regs[0x10][:aw]) else "another address"
                        res.fail(P + "/rx-entry-pipe0-wrong-address", "pipe 0 listens on %s (%s), user's address is %s" % (
                            what, bytes(regs[0x0A][:aw]).hex(), model.user_p0[:aw].hex()))
                elif regs[2] & 1:
                    res.fail(P + "/rx-entry-pipe0-open-without-user-address", "pipe 0 open on %s though the user never "
                             "opened it / closed it" % bytes(regs[0x0A][:aw]).hex())
                if not chip.ce:
                    res.fail(P + "/ce-low-in-rx-mode", "CE low after listen=True")
            # (2) right after open_tx_pipe in TX mode with auto-ack on pipe 0
            if k == "otx" and (regs[0] & 3) == 2 and (lite or regs[1] & 1):
                t = bytes(regs[0x10][:aw])
                want = bytearray(model.r[0x10])[:aw]
                if t != bytes(want):
                    res.fail(P + "/tx-address-wrong", "TX_ADDR %s, expected %s" % (t.hex(), bytes(want).hex()))
                if bytes(regs[0x0A][:aw]) != t:
                    res.fail(P + "/ack-pipe-wrong-address", "after open_tx_pipe RX_ADDR_P0 is %s, TX address %s" % (
                        bytes(regs[0x0A][:aw]).hex(), t.hex()))
                if not regs[2] & 1:
                    res.fail(P + "/ack-pipe-closed/needs-ERX_P0", "after open_tx_pipe in TX mode with auto-ack on, pipe 0 is closed")
            # (3) CE discipline
            if k == "ctx":
                after_ctx = True  # __enter__ restores PRIM_RX with CE low; with-blocks are outside C08's call alphabet, so the
            elif k == "listen":   # CE clause is judged again from the next listen assignment on
                after_ctx = False
            if (regs[0] & 3) == 3 and not chip.ce and k != "listen" and not after_ctx:
                res.fail(P + "/ce-dropped-in-rx-mode", "CE low in RX mode after %r" % (op,))
            if chip.role_change_ce_high:
                res.fail(P + "/role-change-with-ce-high", "PRIM_RX toggled while CE was high during %r" % (op,))
                chip.role_change_ce_high.clear()
            if chip.illegal:
                res.fail(P + "/illegal-spi", chip.illegal[0][1])
                chip.illegal.clear()
    except Exception as e:  # noqa: BLE001 - all arguments are valid
        res.fail(exc_signature(P + "/raises", e), repr(e))
        return res
    # behavioural probes at the end of the sequence (every prefix is itself a case)
    regs = chip.regfile()
    if last is not None and last[0] == "listen" and last[1] and model.user_p0 is not None:
        x = Raw(sim, probe)
        x.w(0, 0x0E)
        x.w(1, regs[1])
        x.w(3, aw - 2)
        x.w(4, 0x13)
        x.w(5, regs[5])
        x.w(6, regs[6])
        x.w(0x1D, regs[0x1D])
        x.w(0x1C, 0x3F if regs[0x1D] & 4 and regs[0x1C] & 1 else 0)
        x.w(0x10, *model.user_p0)
        x.w(0x0A, *model.user_p0)
        sim.advance(2 * MS)
        n = regs[0x11] if not (regs[0x1D] & 4 and regs[0x1C] & 1) else 3
        x.x(0xA0, *([0x42] * max(1, n)))
        x.ce(True)
        sim.advance(10 * MS)
        x.ce(False)
        if not (chip.rxf and chip.rxf[0][1] == 0):
            res.fail(P + "/probe-to-user-address-not-received", "a packet sent to the user's pipe-0 address %s was not "
                     "received on pipe 0 after listen=True" % model.user_p0[:aw].hex())
        res.label("probe-rx")
    # back in TX mode after a role change.  Judged only when the user never gave pipe 0 a reading address: after pipe 0 was
    # used for reading the documentation asks for a fresh open_tx_pipe() (RX_ADDR_P0 holds the reading address), and that
    # case is the "immediately after open_tx_pipe()" probe
    tx_entry = (last is not None and last[0] == "listen" and not last[1] and any(o[0] == "otx" for o in case["ops"])
                and not any(o[0] == "orx" and o[1] == 0 for o in case["ops"])
                and not any(o[0] == "aa" and o[1] != "on" for o in case["ops"]))  # (auto-ack on pipe 0 was on at every open_tx_pipe())
    if tx_entry:
        res.label("probe-tx-after-role-change")
    if last is not None and (last[0] == "otx" or tx_entry) and (regs[0] & 3) == 2 and (lite or regs[1] & 1):
        x = Raw(sim, probe)
        x.w(0, 0x0F)
        x.w(1, 0x3F)
        x.w(2, 0x02)
        x.w(3, aw - 2)
        x.w(5, regs[5])
        x.w(6, regs[6])
        x.w(0x1D, regs[0x1D] & 4)
        dyn = bool(regs[0x1D] & 4 and regs[0x1C] & 1)
        x.w(0x1C, 0x3F if dyn else 0)
        x.w(0x12, regs[0x11])
        x.w(0x0B, *bytes(regs[0x10]))
        x.ce(True)
        sim.advance(2 * MS)
        sim.horizon = sim.now + 500 * MS
        try:
            ok = r.send(b"probe")
        except SimHorizon:
            ok = "no return"
        if tx_entry and ok is not True:
            # "RX/TX switching keeps ACK reception": back in TX mode the radio still hears the ACKs for its TX address
            res.fail(P + "/send-after-tx-entry-fails", "after %r send() to a peer listening on the TX address returned %r (peer got %d payload(s))" % (
                [o for o in case["ops"]][-4:], ok, len(probe.rxf)))
        elif ok is not True and probe.rxf:
            res.fail(P + "/send-after-open_tx_pipe-fails", "peer listening on the TX address received the payload but "
                     "send() returned %r (ACK not received)" % (ok,))
        elif ok is not True:
            res.fail(P + "/send-after-open_tx_pipe-not-delivered", "send() returned %r and the peer got nothing" % (ok,))
        res.label("probe-tx")
    res.label("aw%d" % aw)
    return res


ALPHA = [["orx", 0, "A"], ["orx", 0, "A2"], ["orx", 0, "As"], ["orx", 1, "B"], ["crx", 0], ["crx", 1], ["otx", "A"],
         ["otx", "T"], ["otx", "Tp"], ["aa", "on"], ["aa", "off"], ["aa", "p0off"], ["ack", True], ["send"], ["ctx"], ["listen", True], ["listen", False],
         ["bad", "orx-pipe6"], ["bad", "orx-empty", 0]]
ALPHA_LITE = [o for o in ALPHA if o[0] != "aa"]


CORE = [["orx", 0, "A"], ["orx", 0, "As"], ["crx", 0], ["otx", "T"], ["otx", "A"], ["otx", "Ts"], ["listen", True], ["listen", False]]


def _enum(depth, aws, drv="full", core=False, min_depth=1):
    alpha = CORE if core else (ALPHA_LITE if drv == "lite" else ALPHA)

    def gen():
        for aw in aws:
            for d in range(min_depth, depth + 1):
                for word in itertools.product(alpha, repeat=d):
                    yield {"drv": drv, "aw": aw, "ops": [list(o) for o in word]}
    return gen


def _enum_power(drv="full"):
    """a sleep / wake cycle (power = False, power = True) inserted at every position of every core sequence of length 1..3"""
    def gen():
        for d in range(1, 4):
            for word in itertools.product(CORE, repeat=d):
                for pos in range(1, d + 1):
                    ops = [list(o) for o in word]
                    yield {"drv": drv, "aw": 5, "ops": ops[:pos] + [["power", False], ["power", True]] + ops[pos:]}
    return gen


def _enum_pipe1_open(drv="full"):
    """every core sequence of length 1..4 on a radio whose pipe 1 is open as well (closing pipe 0 then leaves other pipes open)"""
    def gen():
        for d in range(1, 5):
            for word in itertools.product(CORE, repeat=d):
                yield {"drv": drv, "aw": 5, "ops": [["orx", 1, "B"]] + [list(o) for o in word]}
    return gen


def strategy(drv="full"):
    from hypothesis import strategies as st
    alpha = ALPHA_LITE if drv == "lite" else ALPHA
    extra = [["otx", "Ts"], ["orx", 2, "B"], ["orx", 1, "As"], ["power", False], ["power", True], ["power", True], ["bad", "orx-pipe-1"], ["bad", "orx-empty", 1], ["bad", "orx-empty", 3], ["bad", "crx-pipe6"]]
    return st.fixed_dictionaries({
        "drv": st.just(drv), "aw": st.sampled_from([3, 4, 5]),
        # the core calls three times as likely as the rarer ones (refused calls, sleep / wake, other pipes)
        "ops": st.lists(st.sampled_from([o for o in alpha if o[0] != "bad"] * 3 + extra + [o for o in alpha if o[0] == "bad"]), min_size=1, max_size=40),
    })


def parts(tier):
    if tier == "quick":
        return [Part("enum-depth4", "enum", _enum(4, (3, 5)), exhaustive=True),
                Part("enum-core8-depth5-6", "enum", _enum(6, (5,), core=True, min_depth=5), exhaustive=True),
                Part("sleep-wake-cycle-in-core-sequences", "enum", _enum_power(), exhaustive=True),
                Part("core-sequences-with-pipe-1-open", "enum", _enum_pipe1_open(), exhaustive=True),
                Part("generated", "gen", strategy, n=20000)]
    return [Part("sleep-wake-cycle-in-core-sequences", "enum", _enum_power(), exhaustive=True),
            Part("core-sequences-with-pipe-1-open", "enum", _enum_pipe1_open(), exhaustive=True), Part("enum-depth5", "enum", _enum(5, (3, 4, 5)), exhaustive=True),
            Part("enum-core8-depth7", "enum", _enum(7, (4,), core=True, min_depth=7), exhaustive=True),
            Part("generated", "gen", strategy, n=100000)]
