"""C10 - FIFO and status accessors report the radio's true state.

Oracle: the simulated chip is the ground truth.  After update() the status attributes must
describe the chip's FIFOs and latched flags; after any other transaction they must equal
the STATUS byte that transaction shifted out (the documented "update manually" behaviour -
demanding more would be a false alarm).  read()/clear_status_flags()/flush_*() must change
exactly what they document, last_tx_arc equals the retransmission count of the last packet
in the air log, and the IRQ line follows exactly the events enabled by interrupt_config().
The same module serves C20 with drv='lite'."""
from vlib import boot
from vlib.harness.runner import Result, Part, exc_signature
from vlib.sim.core import US, MS, SimHorizon
from vlib.sim.selftest import Raw
from vlib.checks.linkutil import Link, with_plus

PROPERTY = "C10"
LEVEL = "exploration"
RULE = ("a case = payload mode of the device under test (all dynamic / all static with per-pipe lengths / mixed) + an op "
        "list mixing traffic (peer sends n bytes to pipe k, write()/CE pulse/send() to a listening, absent or ACK-payload "
        "peer, load_ack, listen toggles) with accessor calls (update, available, pipe, any, fifo in all 6 forms, tx_full, "
        "irq flags, read, clear_status_flags in 8 forms, flush_rx/tx, last_tx_arc, interrupt_config in 8 forms); "
        "non-trivial = an accessor was judged while >=2 payloads were queued on different pipes or lengths, or after a "
        "failed transmission; distinct = SHA-1 of the case JSON")
ASSUMPTIONS = ["the network is quiescent before every op (the executor lets pending radio activity finish), so no event "
               "races with an accessor", "payloads are always read whole (partial R_RX_PAYLOAD is not modelled)"]
SHRINK_LISTS = ("ops",)
PREFIX = "C10"
PADDR = [b"0pipe", b"1pipe", b"2pipe", b"3pipe", b"4pipe", b"5pipe"]
TADDR = b"Tpeer"


def run_wrapper(case, P):
    """interrupt_config() of the classes that wrap or inherit RF24: every flag combination, positional and by keyword;
    the IRQ line is read from the chip model for each single latched event"""
    from vlib.sim.core import Sim
    from vlib.sim.radio import Chip, Medium
    from vlib.sim.shims import SimSpiDev, SimPin
    L = boot.lib()
    res = Result()
    res.nontrivial = True
    sim = Sim()
    chip = Chip(sim, Medium(sim), "W")
    spi, csn, ce = SimSpiDev(chip), SimPin(), SimPin(chip, "ce")
    cls = case["cls"]
    try:
        if cls == "RF24":
            o = L.RF24(spi, csn, ce)
        elif cls == "FakeBLE":
            o = L.FakeBLE(spi, csn, ce)
        elif cls == "Network":
            o = L.RF24Network(spi, csn, ce, 0o1)
        elif cls == "RoutingOnly":
            o = L.RF24NetworkRoutingOnly(spi, csn, ce, 0o1)
        elif cls == "Mesh":
            o = L.RF24Mesh(spi, csn, ce, 3)
        else:
            o = L.RF24MeshNoMaster(spi, csn, ce, 3)
        o.__enter__()
        a, b, c = case["flags"]
        if case["form"] == "positional":
            o.interrupt_config(a, b, c)
        elif case["form"] == "keyword":
            o.interrupt_config(data_fail=c, data_recv=a, data_sent=b)
        else:  # only the disabled ones are named, the others keep their documented default True
            kw = {n: False for n, v in (("data_recv", a), ("data_sent", b), ("data_fail", c)) if not v}
            o.interrupt_config(**kw)
        enabled = (a << 6) | (b << 5) | (c << 4)
        for bit, name in ((0x40, "data received"), (0x20, "data sent"), (0x10, "data failed")):
            chip.flags = bit
            chip._irq_changed()
            if chip.irq_active() != bool(bit & enabled):
                res.fail(P + "/irq-line/" + cls, "%s.interrupt_config(%s) %s: IRQ pin %s for the event '%s'" % (
                    cls, case["form"], (a, b, c), "asserted" if chip.irq_active() else "idle", name))
            chip.flags = 0
            chip._irq_changed()
    except Exception as e:  # noqa: BLE001
        res.fail(exc_signature(P + "/raises", e), "%s: %r" % (cls, e))
    res.label("interrupt_config-" + cls)
    return res


def run_case(case, prefix=None):
    P = prefix or PREFIX
    if case.get("kind") == "wrapper":
        return run_wrapper(case, P)
    res = Result()
    drv = case.get("drv", "full")
    lite = drv == "lite"
    lk = Link(drv, "full", plus=case.get("plus", True), warm=case.get("warm"))
    res.label("plus-chips" if case.get("plus", True) else "nonplus-chips", "cold-chips" if case.get("warm") is None else "warm-chips")
    sim, med, D, X, r = lk.sim, lk.med, lk.T, lk.R, lk.tx
    sim.spi_budget = 300_000
    x = Raw(sim, X)
    mode = case["mode"]
    lens = [max(1, min(32, v)) for v in case["lens"]]
    if lite:
        lens = [lens[0]] * 6
        dynmask = 0x3F if mode != "static" else 0
        r.dynamic_payloads = bool(dynmask)
        r.payload_length = lens[0]
    else:
        dynmask = {"dyn": 0x3F, "static": 0, "mixed": case["dynmask"] & 0x3F}[mode]
        r.dynamic_payloads = dynmask
        r.payload_length = list(lens)
    r.arc = 2
    r.ard = 500
    for p in range(6):
        r.open_rx_pipe(p, PADDR[p])
    r.open_tx_pipe(TADDR)
    r.listen = True
    sim.advance(1 * MS)
    enabled = 0x70
    counter = [0]
    failed_tx = [False]
    sim.horizon = sim.now + 60_000 * MS

    def pipe_dyn(p):
        return bool(dynmask & (1 << p)) and bool(D.feature() & 4)

    def settle():
        sim.advance(12 * MS)

    def cached_ok(what):
        st = D.last_status
        ep = (st >> 1) & 7
        ep = ep if ep < 6 else None
        got = (r.pipe, bool(r.irq_dr), bool(r.irq_ds), bool(r.irq_df), bool(r.tx_full))
        exp = (ep, bool(st & 0x40), bool(st & 0x20), bool(st & 0x10), bool(st & 1))
        if got != exp:
            names = ("pipe", "irq_dr", "irq_ds", "irq_df", "tx_full")
            k = [n for n, a, b in zip(names, got, exp) if a != b][0]
            res.fail("%s/%s-after-%s" % (P, k, what), "(pipe, dr, ds, df, tx_full) = %r but the STATUS byte of the last "
                     "transaction was 0x%02X -> %r" % (got, st, exp))

    def nt():
        if failed_tx[0] or (len(D.rxf) >= 2 and (len({p for _d, p in D.rxf}) > 1 or len({len(d) for d, _p in D.rxf}) > 1)):
            res.nontrivial = True

    def peer_as_ptx(pipe, n):
        addr = PADDR[pipe] if pipe < 2 else bytes([PADDR[pipe][0]]) + PADDR[1][1:]
        x.ce(False)
        x.w(0, 0x0E)
        x.w(1, 0x3F)
        x.w(2, 0x01)
        x.w(3, 3)
        x.w(4, 0x13)
        x.w(5, D.reg[5])
        x.w(6, D.reg[6])
        dyn = pipe_dyn(pipe)
        x.w(0x1D, 0x06 if dyn else 0)
        x.w(0x1C, 0x3F if dyn else 0)
        x.w(0x0A, *addr)
        x.w(0x10, *addr)
        x.x(0xE1)
        x.x(0xE2)
        x.w(7, 0x70)
        sim.advance(2 * MS)
        counter[0] += 1
        if not dyn:
            n = D.reg[0x11 + pipe]
        n = max(1, min(32, n))
        x.x(0xA0, *[(counter[0] * 7 + i) & 0xFF for i in range(n)])
        x.ce(True)
        settle()
        x.ce(False)

    def peer_as_prx(state):
        x.ce(False)
        x.w(0, 0x0F)
        x.w(1, 0x3F)
        x.w(2, 0x02)
        x.w(3, 3)
        x.w(5, D.reg[5])
        x.w(6, D.reg[6])
        dyn = pipe_dyn(0)
        x.w(0x1D, (0x06 if state == "ackpl" else 0x04) if dyn else 0)
        x.w(0x1C, 0x3F if dyn else 0)
        x.w(0x12, D.reg[0x11])
        x.w(0x0B, *TADDR)
        x.x(0xE1)
        x.x(0xE2)
        x.w(7, 0x70)
        if state == "ackpl" and dyn:
            x.x(0xA9, 0xAC, 0x4B, counter[0] & 0xFF)
        if state != "absent":
            x.ce(True)
        sim.advance(2 * MS)

    twin = None
    if case.get("twin"):
        # a second radio with its own driver object in the same program (quiet: nothing in its FIFOs, no flags); it is
        # polled before every op, so the accessors that answer from the last status byte must use their OWN object's
        from vlib.sim.radio import Chip
        from vlib.checks.linkutil import mk_radio
        twin = mk_radio(drv, Chip(sim, med, "W"))
        twin.listen = False
        res.label("second-radio-polled-in-between")
    try:
        for op in case["ops"]:
            k = op[0]
            settle()
            if twin is not None and k in ("any", "fifo", "read", "available", "update", "clear", "last_tx_arc", "flush_rx", "flush_tx"):
                st0 = D.last_status
                twin.update()
                D.last_status = st0  # (the twin's transaction does not touch this chip)
                cached_ok("a-transaction-on-the-other-radio")
            rx_before = list(D.rxf)
            tx_before = [bytes(e.payload) for e in D.txf]
            fl_before = D.flags
            if k == "peer_send":
                if not D.in_rx_mode():
                    r.listen = True
                    sim.advance(1 * MS)
                peer_as_ptx(op[1], op[2])
                res.label("rx-traffic")
            elif k == "listen":
                r.listen = bool(op[1])
                cached_ok("listen")
            elif k == "write":
                n = max(1, min(32, op[1]))
                counter[0] += 1
                peer_as_prx(op[4])
                r.write(bytes([(counter[0] + i) & 0xFF for i in range(n)]), ask_no_ack=bool(op[2]), write_only=bool(op[3]))
                cached_ok("write")
                settle()
                if D.flags & 0x10:
                    failed_tx[0] = True
            elif k == "fill_tx":
                # queue op[1] payloads without transmitting them (CE low, write_only), e.g. to fill the TX FIFO
                r.ce_pin = False
                for i in range(op[1]):
                    counter[0] += 1
                    r.write(bytes([(counter[0] + j) & 0xFF for j in range(op[2])]), write_only=True)
                cached_ok("write")
                res.label("tx-fifo-%d" % len(D.txf))
            elif k == "ce":
                r.ce_pin = bool(op[1])
                settle()
            elif k == "send":
                if D.prim_rx():
                    r.listen = False
                if len(D.txf) >= 3:
                    # observation outside the listed properties: with a TX FIFO filled by write(write_only=True) and a
                    # cached status that does not show TX_FULL, write() refuses the payload and send() polls for ever
                    res.label("send-skipped-tx-fifo-full")
                    continue
                n = max(1, min(32, op[1]))
                counter[0] += 1
                peer_as_prx(op[2])
                r.send(bytes([(counter[0] * 3 + i) & 0xFF for i in range(n)]), send_only=bool(op[3]))
                cached_ok("send")
                if D.flags & 0x10:
                    failed_tx[0] = True
                res.label("tx-" + op[2])
            elif k == "load_ack":
                if not D.in_rx_mode() or lite and False:
                    continue
                n = max(1, min(32, op[1]))
                r.load_ack(bytes([0xA0 + i for i in range(n)]), op[2])
                dynmask |= 1
            elif k == "update":
                nt()
                if r.update() is not True:
                    res.fail(P + "/update-return", "update() did not return True")
                st = D.status()
                ep = (st >> 1) & 7
                got = (r.pipe, bool(r.irq_dr), bool(r.irq_ds), bool(r.irq_df), bool(r.tx_full))
                exp = (ep if ep < 6 else None, bool(D.flags & 0x40), bool(D.flags & 0x20), bool(D.flags & 0x10), len(D.txf) >= 3)
                if got != exp:
                    names = ("pipe", "irq_dr", "irq_ds", "irq_df", "tx_full")
                    kk = [n for n, a, b in zip(names, got, exp) if a != b][0]
                    res.fail("%s/%s-after-update" % (P, kk), "(pipe, dr, ds, df, tx_full) = %r, chip state %r" % (got, exp))
            elif k == "available":
                nt()
                got = r.available()
                if got is not bool(D.rxf):
                    res.fail(P + "/available", "available() = %r with %d payloads in the RX FIFO" % (got, len(D.rxf)))
                cached_ok("available")
            elif k == "any":
                nt()
                got = r.any()
                exp = len(D.rxf[0][0]) if D.rxf else 0
                if got != exp:
                    res.fail(P + "/any", "any() = %r, next payload has %d bytes (pipe %s)" % (got, exp, D.rxf[0][1] if D.rxf else None))
                if not lite:
                    cached_ok("any")
            elif k == "fifo":
                nt()
                about_tx, ce = bool(op[1]), op[2]
                n = len(D.txf) if about_tx else len(D.rxf)
                if ce is None:
                    got = r.fifo(about_tx)
                    exp = 1 if n == 0 else (2 if n >= 3 else 0)
                else:
                    got = r.fifo(about_tx, bool(ce))
                    exp = (n == 0) if ce else (n >= 3)
                if got != exp or (ce is not None and not isinstance(got, bool)):
                    res.fail(P + "/fifo", "fifo(%r, %r) = %r with %d payloads in that FIFO" % (about_tx, ce, got, n))
                cached_ok("fifo")
            elif k == "read":
                nt()
                got = r.read()
                if not rx_before:
                    if got is not None:
                        res.fail(P + "/read-empty", "read() on an empty RX FIFO returned %r" % (got,))
                else:
                    if got is None or bytes(got) != rx_before[0][0]:
                        res.fail(P + "/read-payload", "read() returned %r, oldest payload was %r" % (
                            None if got is None else bytes(got), rx_before[0][0]))
                    if list(D.rxf) != rx_before[1:]:
                        res.fail(P + "/read-removes", "RX FIFO had %d payloads, %d after one read()" % (len(rx_before), len(D.rxf)))
                    if D.flags & 0x40:
                        res.fail(P + "/read-leaves-data-ready", "RX_DR still set after read()")
                    # read() is a transaction: afterwards `pipe` describes the NEXT payload (or None), not the one just removed
                    nxt = D.rxf[0][1] if D.rxf else None
                    if not lite and r.pipe != nxt:
                        res.fail(P + "/pipe-after-read", "after read() pipe = %r, the next payload is on pipe %r" % (r.pipe, nxt))
                if (D.flags ^ fl_before) & 0x30:
                    res.fail(P + "/read-touches-tx-flags", "flags 0x%02X -> 0x%02X over read()" % (fl_before, D.flags))
                if [bytes(e.payload) for e in D.txf] != tx_before:
                    res.fail(P + "/read-touches-tx-fifo", "TX FIFO changed over read()")
            elif k == "clear":
                a, b, c = bool(op[1]), bool(op[2]), bool(op[3])
                if D.flags & 0x10 and c and D.ce and D.txf and not D.prim_rx():
                    r.ce_pin = False  # clearing MAX_RT with CE high restarts the transmission: keep the op pure
                r.clear_status_flags(a, b, c)
                exp = fl_before & ~((a << 6) | (b << 5) | (c << 4))
                if D.flags != exp:
                    res.fail(P + "/clear_status_flags", "clear_status_flags(%r, %r, %r): flags 0x%02X -> 0x%02X, expected 0x%02X" % (
                        a, b, c, fl_before, D.flags, exp))
                if list(D.rxf) != rx_before or [bytes(e.payload) for e in D.txf] != tx_before:
                    res.fail(P + "/clear-touches-fifo", "a FIFO changed over clear_status_flags()")
            elif k == "flush_rx":
                r.flush_rx()
                if D.rxf or [bytes(e.payload) for e in D.txf] != tx_before or D.flags != fl_before:
                    res.fail(P + "/flush_rx", "after flush_rx: %d RX payloads, TX FIFO %s, flags 0x%02X -> 0x%02X" % (
                        len(D.rxf), "changed" if [bytes(e.payload) for e in D.txf] != tx_before else "same", fl_before, D.flags))
            elif k == "flush_tx":
                r.flush_tx()
                if D.txf or list(D.rxf) != rx_before or D.flags != fl_before:
                    res.fail(P + "/flush_tx", "after flush_tx: %d TX payloads, RX FIFO %s, flags 0x%02X -> 0x%02X" % (
                        len(D.txf), "changed" if list(D.rxf) != rx_before else "same", fl_before, D.flags))
            elif k == "last_tx_arc":
                if lite:
                    continue
                mine = [e for e in med.log if e["src"] == "T" and not e["ack"]]
                exp = mine[-1]["retx"] if mine else 0
                got = r.last_tx_arc
                if got != exp:
                    res.fail(P + "/last_tx_arc", "last_tx_arc = %r, the last packet was retransmitted %d times" % (got, exp))
            elif k == "neutral":
                # re-asserting a setting (or toggling nothing) through setters that share a register with the IRQ masks or
                # the flags: neither may change
                which = op[1] % 8
                if which == 0 and not lite:
                    r.crc = r.crc
                elif which == 1:
                    r.power = True
                elif which == 2:
                    r.channel = r.channel
                elif which == 3:
                    r.pa_level = r.pa_level
                elif which == 4:
                    r.data_rate = r.data_rate
                elif which == 5:
                    r.arc = 2
                elif which == 6:
                    r.ard = 500
                elif not lite:
                    r.allow_ask_no_ack = r.allow_ask_no_ack
            elif k == "irqcfg":
                a, b, c = bool(op[1]), bool(op[2]), bool(op[3])
                r.interrupt_config(a, b, c)
                enabled = (a << 6) | (b << 5) | (c << 4)
                if D.reg[0] & 0x0F != (0x0E | D.prim_rx()) & 0x0F and False:
                    pass
            # invariant: IRQ line asserted for exactly the enabled latched events
            if D.irq_active() != bool(D.flags & enabled):
                res.fail(P + "/irq-line", "IRQ pin %s with flags 0x%02X and enabled events 0x%02X (after %r)" % (
                    "asserted" if D.irq_active() else "idle", D.flags, enabled, op))
            if D.illegal:
                res.fail(P + "/illegal-spi", D.illegal[0][1])
                D.illegal.clear()
    except SimHorizon:
        res.inconclusive = "a traffic op did not return within the SPI budget (not an accessor; outside C10)"
    except Exception as e:  # noqa: BLE001
        res.fail(exc_signature(P + "/raises", e), repr(e))
    res.label(mode)
    return res


def strategy(drv="full"):
    from hypothesis import strategies as st
    lite = drv == "lite"
    b = st.booleans()
    n = st.one_of(st.integers(1, 32), st.sampled_from([1, 2, 31, 32]))
    peer = st.sampled_from(["listening", "listening", "absent", "ackpl"])
    ops = [
        st.tuples(st.just("peer_send"), st.integers(0, 5), n), st.tuples(st.just("peer_send"), st.integers(0, 5), n),
        st.tuples(st.just("peer_send"), st.integers(0, 5), n), st.tuples(st.just("peer_send"), st.integers(0, 5), n),
        st.tuples(st.just("peer_send"), st.integers(0, 5), n), st.tuples(st.just("peer_send"), st.integers(0, 5), n),
        st.tuples(st.just("peer_send"), st.integers(0, 5), n), st.tuples(st.just("peer_send"), st.integers(0, 5), n),
        st.tuples(st.just("listen"), b),
        st.tuples(st.just("write"), n, b, b, peer), st.tuples(st.just("ce"), b),
        st.tuples(st.just("send"), n, peer, b), st.tuples(st.just("load_ack"), n, st.integers(0, 5)),
        st.tuples(st.just("fill_tx"), st.integers(1, 4), st.integers(1, 32)), st.tuples(st.just("fill_tx"), st.just(3), st.integers(1, 32)),
        st.tuples(st.just("load_ack"), n, st.integers(0, 5)), st.tuples(st.just("load_ack"), n, st.integers(0, 5)),
        st.just(("update",)), st.just(("update",)), st.just(("available",)), st.just(("any",)), st.just(("any",)),
        st.tuples(st.just("fifo"), b, st.sampled_from([None, True, False])),
        st.just(("read",)), st.just(("read",)), st.tuples(st.just("clear"), b, b, b), st.just(("flush_rx",)), st.just(("flush_tx",)),
        st.just(("last_tx_arc",)), st.tuples(st.just("irqcfg"), b, b, b), st.tuples(st.just("neutral"), st.integers(0, 7)),
    ]
    return st.fixed_dictionaries({
        "drv": st.just(drv),
        "mode": st.sampled_from(["dyn", "static", "static"] + ([] if lite else ["mixed", "mixed"])),
        "lens": st.lists(st.integers(1, 32), min_size=6, max_size=6),
        "dynmask": st.integers(0, 0x3F),
        "ops": st.lists(st.one_of(*ops).map(list), min_size=3, max_size=40),
        "twin": st.sampled_from([False, False, True]),
    })


ENUM_ALPHA = [["peer_send", 1, 5], ["peer_send", 5, 32], ["peer_send", 0, 1], ["listen", True], ["listen", False],
              ["send", 4, "listening", False], ["send", 4, "absent", False], ["send", 3, "ackpl", False], ["fill_tx", 3, 2],
              ["load_ack", 2, 1], ["read"], ["clear", True, False, False], ["clear", False, True, True], ["flush_rx"], ["flush_tx"],
              ["irqcfg", False, True, True], ["neutral", 0],
              # the documented non-blocking flow: write(), then the application polls update() (the executor settles the air)
              ["write", 4, False, False, "absent"], ["write", 6, False, False, "listening"]]
ENUM_TAIL = [["update"], ["available"], ["any"], ["fifo", False, None], ["fifo", True, None], ["read"], ["update"], ["last_tx_arc"]]


def _enum(depth, drv="full"):
    """the radio starts listening; every word of `depth` traffic / mutator ops over ENUM_ALPHA in every payload mode,
    followed by the accessor tail (every accessor is also judged after each op of the word by the executor)"""
    def gen():
        import itertools
        modes = ["dyn", "static"] + ([] if drv == "lite" else ["mixed"])
        for mode in modes:
            for w in itertools.product(ENUM_ALPHA, repeat=depth):
                yield {"drv": drv, "mode": mode, "lens": [5, 7, 9, 11, 13, 32], "dynmask": 0x2A,
                       "ops": [["listen", True]] + [list(o) for o in w] + ENUM_TAIL, "twin": w[0][0] == "peer_send"}
    return gen


def _wrapper_cases():
    import itertools
    for cls in ("RF24", "FakeBLE", "Network", "RoutingOnly", "Mesh", "MeshNoMaster"):
        for form in ("positional", "keyword", "disabled-only"):
            for fl in itertools.product((False, True), repeat=3):
                yield {"kind": "wrapper", "cls": cls, "form": form, "flags": list(fl)}


def _parts(tier):
    if tier == "quick":
        return [Part("interrupt_config-of-every-class", "enum", _wrapper_cases, exhaustive=True), Part("enum-words-depth3", "enum", _enum(3), exhaustive=True), Part("generated", "gen", strategy, n=4000)]
    return [Part("interrupt_config-of-every-class", "enum", _wrapper_cases, exhaustive=True), Part("enum-words-depth4", "enum", _enum(4), exhaustive=True), Part("generated", "gen", strategy, n=120000)]


def parts(tier):
    # the chip variant (plus / non-plus) is one more dimension of every case (linkutil.with_plus)
    return [with_plus(p) for p in _parts(tier)]
