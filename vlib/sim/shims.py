"""Duck-typed hardware objects handed to the unmodified drivers.

* `SimSpiDev`  - looks like `spidev.SpiDev`; its class name ends in "SpiDev", which makes
                 `RF24` wrap it in the library's own `SPIDevCtx`.
* `SimBusSPI`  - looks like `busio.SPI`; used through adafruit's `SPIDevice` by rf24_lite
                 (and optionally by RF24).  Bytes clocked while CSN is high are ignored.
* `SimPin`     - looks like `digitalio.DigitalInOut`; role "ce" / "csn" drives the chip.
"""
from .core import HarnessError


class SimPin:
    def __init__(self, chip=None, role=None):
        self.chip, self.role = chip, role
        self._v = False

    def switch_to_output(self, value=False, **_kw):
        self.value = value

    @property
    def value(self):
        return self._v

    @value.setter
    def value(self, v):
        self._v = bool(v)
        chip = self.chip
        if chip is None:
            return
        sim = chip.sim
        if self.role == "ce":
            mcu = sim.cur_mcu()
            sim.advance(mcu.j(mcu.pin))
            chip.set_ce(v)
        elif self.role == "csn":
            chip.set_csn(v)


class SimSpiDev:
    """stand-in for spidev.SpiDev (one whole transaction per xfer2)"""

    def __init__(self, chip):
        self.chip = chip
        self.no_cs = True
        self.is_open = False

    def open(self, bus, dev):
        self.is_open = True

    def close(self):
        self.is_open = False

    def xfer2(self, out, baud=0):
        sim = self.chip.sim
        mcu = sim.cur_mcu()
        sim.advance(mcu.j(mcu.spi_base + mcu.spi_byte * len(out)))
        return self.chip.xfer(out)


class SharedSimSpiDev:
    """one spidev.SpiDev object shared by the driver objects of several radios on one host (CE0 / CE1 of a Raspberry
    Pi): open(bus, device) selects the chip the following transfers go to, as the kernel's chip select does"""

    def __init__(self, chips):
        self.chips = dict(chips)  # (bus, device) -> Chip
        self.cur = None
        self.no_cs = False

    def open(self, bus, dev):
        if (bus, dev) not in self.chips:
            raise FileNotFoundError("/dev/spidev%d.%d" % (bus, dev))
        self.cur = self.chips[(bus, dev)]

    def close(self):
        self.cur = None

    def xfer2(self, out, baud=0):
        if self.cur is None:
            raise OSError("transfer on a spidev object that is not open")
        sim = self.cur.sim
        mcu = sim.cur_mcu()
        sim.advance(mcu.j(mcu.spi_base + mcu.spi_byte * len(out)))
        return self.cur.xfer(out)


class SimBusSPI:
    """stand-in for busio.SPI shared by any number of devices; the chip whose CSN is low
    gets the bytes"""

    def __init__(self, chips):
        self.chips = list(chips)
        self.locked = False
        self.in_txn = {}

    def try_lock(self):
        if self.locked:
            return False
        self.locked = True
        return True

    def unlock(self):
        self.locked = False

    def configure(self, baudrate=100000, polarity=0, phase=0, bits=8):
        pass

    def _selected(self):
        sel = [c for c in self.chips if not c.csn]
        if len(sel) > 1:
            raise HarnessError("two chips selected on one SPI bus")
        return sel[0] if sel else None

    def write_readinto(self, out_buf, in_buf, out_start=0, out_end=None, in_start=0, in_end=None):
        out_end = len(out_buf) if out_end is None else out_end
        in_end = len(in_buf) if in_end is None else in_end
        out = bytes(out_buf[out_start:out_end])
        chip = self._selected()
        if chip is None:
            return
        sim = chip.sim
        mcu = sim.cur_mcu()
        sim.advance(mcu.j(mcu.spi_base + mcu.spi_byte * len(out)))
        resp = chip.xfer(out)
        n = min(in_end - in_start, len(resp))
        in_buf[in_start:in_start + n] = resp[:n]

    def write(self, buf, start=0, end=None):
        end = len(buf) if end is None else end
        chip = self._selected()
        if chip is None:
            return  # clocks with CSN high (SPIDevice extra_clocks) reach nobody
        sim = chip.sim
        mcu = sim.cur_mcu()
        sim.advance(mcu.j(mcu.spi_base + mcu.spi_byte * (end - start)))
        chip.xfer(bytes(buf[start:end]))

    def readinto(self, buf, start=0, end=None, write_value=0):
        end = len(buf) if end is None else end
        chip = self._selected()
        if chip is None:
            return
        resp = chip.xfer(bytes([write_value] * (end - start)))
        buf[start:end] = resp


def make_spidev_radio(cls, chip, *args, **kw):
    """construct a driver object of class `cls` on `chip` through the spidev path"""
    return cls(SimSpiDev(chip), SimPin(), SimPin(chip, "ce"), *args, **kw)


def make_bus_radio(cls, chip, *args, **kw):
    """construct a driver object through busio-style bus + adafruit SPIDevice"""
    bus = SimBusSPI([chip])
    return cls(bus, SimPin(chip, "csn"), SimPin(chip, "ce"), *args, **kw)
