"""Discrete-event kernel with virtual time and baton-passing tasks.

One `Sim` per case.  Radio/air events live in a heap; *tasks* are Python threads running
ordinary blocking library code for one MCU each.  Exactly one thread runs at any moment
(the baton is one semaphore per task); the order in which tasks run is a deterministic
function of their virtual wake-up times, so threads add no nondeterminism.

With no spawned task (all link-level checks) everything runs in the caller's thread and
`advance()` degenerates to "fire due events, move the clock".
"""
import heapq
import random
import threading
import time as _rt

REAL_SLEEP, REAL_MONO, REAL_MONO_NS, REAL_TIME = _rt.sleep, _rt.monotonic, _rt.monotonic_ns, _rt.time

_tls = threading.local()
US = 1000
MS = 1000 * US
SEC = 1000 * MS


class SimHorizon(BaseException):
    """virtual-time horizon or SPI budget exceeded inside a task"""


class TaskExit(BaseException):
    """raised inside a task at its next simulator call when the case is torn down"""


class HarnessError(Exception):
    """something is wrong with the harness itself (never a property violation)"""


class Mcu:
    """timing model of one micro-controller: every cost is virtual nanoseconds"""

    __slots__ = ("spi_base", "spi_byte", "pin", "clock", "jit", "rng", "poll")

    def __init__(self, spi_base=20 * US, spi_byte=1 * US, pin=1 * US, clock=2 * US, jitter=0.0, seed=0,
                 poll=500 * US):
        self.spi_base, self.spi_byte, self.pin, self.clock = spi_base, spi_byte, pin, clock
        self.jit, self.rng, self.poll = jitter, random.Random(seed), poll

    def j(self, ns):
        if self.jit:
            return int(ns * (1.0 + self.jit * self.rng.random()))
        return ns

    @staticmethod
    def from_dict(d):
        if not d:
            return Mcu()
        return Mcu(spi_base=d.get("spi", 20) * US, spi_byte=d.get("byte", 1) * US, pin=d.get("pin", 1) * US,
                   clock=d.get("clk", 2) * US, jitter=d.get("jit", 0) / 100.0, seed=d.get("seed", 0),
                   poll=d.get("poll", 500) * US)


class Task:
    def __init__(self, sim, name, fn, mcu=None):
        self.sim, self.name, self.fn = sim, name, fn
        self.mcu = mcu or sim.mcu
        self.wake = sim.now
        self.sem = threading.Semaphore(0)
        self.done = False
        self.exc = None
        self.horizon_hit = False
        self.thread = None
        self.blocked_on = None  # description of what it is doing, for quiescence tests
        self.idle = False  # True while blocked in wait_irq (nothing to do)

    def _run(self):
        self.sem.acquire()
        _tls.task = self
        try:
            if not self.sim.stopping:
                self.fn()
        except TaskExit:
            pass
        except SimHorizon:
            self.horizon_hit = True
        except BaseException as e:  # noqa: BLE001 - reported by the check, see DESIGN section 6
            self.exc = e
        self.done = True
        _tls.task = None
        self.sim._handoff()


class Sim:
    def __init__(self, horizon_ns=60 * SEC, spi_budget=2_000_000, mcu=None):
        self.now = 0
        self.seq = 0
        self.events = []
        self.tasks = []
        self.horizon = horizon_ns
        self.spi_budget = spi_budget
        self.spi_count = 0
        self.stopping = False
        self.main = None
        self.mcu = mcu or Mcu()
        VTIME.sim = self

    # ---- events
    def at(self, t, cb):
        self.seq += 1
        heapq.heappush(self.events, (max(t, self.now), self.seq, cb))

    def after(self, dt, cb):
        self.at(self.now + dt, cb)

    # ---- who is running
    def cur(self):
        t = getattr(_tls, "task", None)
        if t is not None and t.sim is self:
            return t
        return None

    def cur_mcu(self):
        t = self.cur()
        return t.mcu if t is not None else self.mcu

    # ---- consuming time
    def advance(self, dt):
        """the running context consumes dt ns of virtual time"""
        if dt < 0:
            dt = 0
        me = self.cur()
        if me is None:
            self._run_until(self.now + dt)
            return
        me.wake = self.now + dt
        self._schedule(me)

    def spi_tick(self):
        self.spi_count += 1
        if self.spi_count > self.spi_budget:
            raise SimHorizon("spi budget")

    def _run_until(self, t):
        while self.events and self.events[0][0] <= t:
            et, _, cb = heapq.heappop(self.events)
            self.now = max(self.now, et)
            cb()
        self.now = max(self.now, t)
        if self.now > self.horizon:
            raise SimHorizon("virtual time horizon")

    def _next_task(self):
        best = None
        for tk in self.tasks:
            if not tk.done and (best is None or tk.wake < best.wake):
                best = tk
        return best

    def _schedule(self, me):
        while True:
            if self.stopping and me is not self.main:
                raise TaskExit()
            nt = self._next_task()
            tw = nt.wake if nt is not None else None
            if self.events and (tw is None or self.events[0][0] <= tw):
                et, _, cb = heapq.heappop(self.events)
                self.now = max(self.now, et)
                cb()
                continue
            if nt is None:
                return
            self.now = max(self.now, nt.wake)
            if self.now > self.horizon:
                if nt is me:
                    raise SimHorizon("virtual time horizon")
                # let the owner of that wake-up raise it
            if nt is me:
                return
            nt.sem.release()
            if not me.sem.acquire(timeout=300):
                raise HarnessError("baton timeout in task %s" % me.name)
            if self.stopping and me is not self.main:
                raise TaskExit()
            if self.now > self.horizon:
                raise SimHorizon("virtual time horizon")
            return

    def _handoff(self):
        """called by a finished task: pass the baton on"""
        while True:
            nt = self._next_task()
            tw = nt.wake if nt is not None else None
            if not self.stopping and self.events and (tw is None or self.events[0][0] <= tw):
                et, _, cb = heapq.heappop(self.events)
                self.now = max(self.now, et)
                cb()
                continue
            if nt is None:
                return
            self.now = max(self.now, nt.wake)
            nt.sem.release()
            return

    # ---- tasks
    def spawn(self, name, fn, mcu=None, start_at=None):
        tk = Task(self, name, fn, mcu)
        if start_at is not None:
            tk.wake = start_at
        tk.thread = threading.Thread(target=tk._run, daemon=True, name="sim-" + name)
        self.tasks.append(tk)
        tk.thread.start()
        return tk

    def run_main(self, fn, mcu=None):
        """run fn as the 'main' task in the calling thread, together with spawned tasks"""
        me = Task(self, "main", None, mcu)
        self.main = me
        self.tasks.append(me)
        prev = getattr(_tls, "task", None)
        _tls.task = me
        try:
            return fn()
        finally:
            self.stopping = True
            me.done = True
            _tls.task = prev
            for tk in self.tasks:
                if tk is not me and not tk.done:
                    tk.sem.release()
            for tk in self.tasks:
                if tk is not me and tk.thread is not None:
                    tk.thread.join(timeout=30)
                    if tk.thread.is_alive():
                        raise HarnessError("task %s did not unwind" % tk.name)

    # ---- idling
    def wait_irq(self, chip, max_dt, latency=50 * US):
        """Block the current task until `chip` has something in its RX FIFO (plus a reaction
        latency) or max_dt elapsed.  Observationally a fast `update()` poll loop, without the
        thread switches.  A latched TX_DS/MAX_RT is *not* pending work."""
        me = self.cur()
        if chip.rxf:
            self.advance(latency)
            return True
        if me is None:
            self.advance(max_dt)
            return bool(chip.rxf)

        def w():
            me.wake = min(me.wake, self.now + latency)

        chip.rx_waiters.append(w)
        me.idle = True
        try:
            self.advance(max_dt)
        finally:
            me.idle = False
            chip.rx_waiters.remove(w)
        return bool(chip.rxf)


class VTime:
    """module-like replacement for `time` inside the library's modules"""

    def __init__(self):
        self.sim = None

    def _active(self):
        s = self.sim
        if s is None:
            return None
        if s.tasks and s.cur() is None:
            # a foreign thread (harness, hypothesis) while tasks exist: real time
            return None
        return s

    def sleep(self, s):
        sim = self._active()
        if sim is None:
            return REAL_SLEEP(s)
        sim.advance(int(s * 1e9))

    def monotonic_ns(self):
        sim = self._active()
        if sim is None:
            return REAL_MONO_NS()
        sim.advance(sim.cur_mcu().j(sim.cur_mcu().clock))
        return sim.now

    def monotonic(self):
        sim = self._active()
        if sim is None:
            return REAL_MONO()
        sim.advance(sim.cur_mcu().j(sim.cur_mcu().clock))
        return sim.now / 1e9

    def time(self):
        return self.monotonic()


VTIME = VTime()
