"""Self-test of the simulator against datasheet scenarios, through raw SPI only (no driver).
A failure here is a harness error (exit 2), never a property violation."""
from .core import Sim, US, HarnessError
from .radio import Chip, Medium


class Raw:
    """minimal raw-SPI user of a chip"""

    def __init__(self, sim, chip):
        self.sim, self.chip = sim, chip

    def x(self, *out):
        self.sim.advance(10 * US)
        return self.chip.xfer(bytes(out))

    def w(self, reg, *data):
        return self.x(0x20 | reg, *data)

    def r(self, reg, n=1):
        return bytes(self.x(reg, *([0] * n))[1:])

    def status(self):
        return self.x(0xFF)[0]

    def ce(self, v):
        self.chip.set_ce(v)

    def setup(self, rx, addr=b"abcde", retr=0x13, en_aa=0x3F, feature=0, dynpd=0, pw=4, rf=0x06):
        self.w(0, 0x0E | (1 if rx else 0))
        self.w(1, en_aa)
        self.w(2, 0x03)
        self.w(3, 3)
        self.w(4, retr)
        self.w(5, 40)
        self.w(6, rf)
        self.w(0x1D, feature)
        self.w(0x1C, dynpd)
        if rx:
            self.w(0x0B, *addr)
            self.w(0x12, pw)
        else:
            self.w(0x0A, *addr)
            self.w(0x10, *addr)
            self.w(0x11, pw)
        self.sim.advance(2000 * US)


class Faults:
    def __init__(self, word):
        self.word = list(word)

    def on_tx(self, pkt):
        if pkt.is_ack:
            return
        s = self.word.pop(0) if self.word else "D"
        if s == "P":
            pkt.drop = True
        elif s == "A":
            pkt.drop_ack = True


def _expect(cond, what):
    if not cond:
        raise HarnessError("simulator self-test failed: " + what)


def run(verbose=False, brief=False):
    # 1. TX -> ACK -> TX_DS; status byte is the value at CSN-low
    sim = Sim()
    med = Medium(sim)
    t, r = Raw(sim, Chip(sim, med, "T")), Raw(sim, Chip(sim, med, "R"))
    t.setup(False)
    r.setup(True)
    r.ce(True)
    sim.advance(300 * US)
    st = t.x(0xA0, 1, 2, 3, 4)[0]
    _expect(st == 0x0E, "status before W_TX_PAYLOAD")
    t.ce(True)
    sim.advance(1000 * US)
    _expect(t.status() & 0x20, "TX_DS after acknowledged packet")
    _expect(r.status() == 0x42, "RX_DR and pipe 1 at receiver")
    _expect(bytes(r.x(0x61, 0, 0, 0, 0)[1:]) == b"\x01\x02\x03\x04", "payload")
    st = t.w(7, 0x70)[0]
    _expect(st & 0x20, "status shifted out is the pre-write value")
    _expect(not t.status() & 0x70, "flags cleared")
    _expect(len(med.log) == 2 and med.log[1]["ack"], "one packet, one ACK on air")

    # 2. MAX_RT after 1+ARC attempts with ARD spacing, payload kept, FIFO blocked
    r.ce(False)
    t.ce(False)
    t.x(0xA0, 9, 9, 9, 9)
    n0 = len(med.log)
    t0 = sim.now
    t.ce(True)
    sim.advance(5000 * US)
    attempts = med.log[n0:]
    _expect(len(attempts) == 4, "1+ARC(3) attempts, got %d" % len(attempts))
    gaps = [b["t0"] - a["t1"] for a, b in zip(attempts, attempts[1:])]
    _expect(all(g == 500 * US for g in gaps), "ARD=500us spacing, got %r" % gaps)
    _expect(t.status() & 0x10, "MAX_RT")
    _expect(t.r(0x17)[0] & 0x10 == 0, "payload kept in TX FIFO")
    _expect(t.r(8)[0] == 0x13, "OBSERVE_TX plos=1 arc=3, got %02x" % t.r(8)[0])
    n1 = len(med.log)
    t.x(0xA0, 7, 7, 7, 7)
    sim.advance(3000 * US)
    _expect(len(med.log) == n1, "TX blocked while MAX_RT set")
    if brief:
        return True

    # 3. lost ACK: PRX keeps one copy, PTX retransmits with same PID, duplicate is not stored again
    t.ce(False)
    t.x(0xE1)
    t.w(7, 0x70)
    r.ce(True)
    sim.advance(300 * US)
    med.fault = Faults("AAD")
    t.x(0xA0, 5, 5, 5, 5)
    t.ce(True)
    sim.advance(5000 * US)
    _expect(t.status() & 0x20, "TX_DS after retransmission")
    _expect(t.r(8)[0] & 0x0F == 2, "ARC_CNT 2")
    _expect(len(r.chip.rxf) == 1, "duplicate rejected by PID, got %d" % len(r.chip.rxf))
    med.fault = None
    r.x(0xE2)
    r.w(7, 0x70)
    t.w(7, 0x70)
    t.ce(False)

    # 4. ACK payload retained on a lost ACK and released (TX_DS at PRX) by the next new packet
    for n in (t, r):
        n.w(0x1D, 0x06)
        n.w(0x1C, 0x3F)
    r.x(0xA9, 0xAA, 0xBB)
    r.x(0xA9, 0xCC)
    med.fault = Faults("AD")
    t.x(0xA0, 1)
    t.ce(True)
    sim.advance(5000 * US)
    _expect(t.chip.rxf and t.chip.rxf[0][0] == b"\xaa\xbb", "ACK payload delivered after retry")
    _expect(len(t.chip.rxf) == 1, "only one ACK payload")
    _expect(len(r.chip.txf) == 2 and not r.status() & 0x20, "ACK payload kept until next new packet")
    t.w(7, 0x70)
    t.x(0xA0, 2)
    sim.advance(5000 * US)
    _expect(len(r.chip.txf) == 1 and r.status() & 0x20, "ACK payload released, TX_DS at PRX")
    _expect(t.chip.rxf[1][0] == b"\xcc", "second ACK payload")
    med.fault = None

    # 5. RX FIFO full: packet refused, not acknowledged
    t.x(0xE2)
    r.x(0xE2)
    r.x(0xE1)
    for k in range(3):
        t.w(7, 0x70)
        t.x(0xA0, k + 10)
        sim.advance(3000 * US)
    _expect(len(r.chip.rxf) == 3, "three payloads queued")
    t.w(7, 0x70)
    t.x(0xA0, 99)
    sim.advance(6000 * US)
    _expect(t.status() & 0x10 and len(r.chip.rxf) == 3, "4th packet refused and not ACKed")
    _expect(r.r(0x17)[0] & 2, "RX_FULL")

    # 6. 250 kbps with ARD=250us cannot be acknowledged (datasheet 7.4.2); 500us can
    for ard, ok in ((0x03, False), (0x13, True)):
        sim2 = Sim()
        med2 = Medium(sim2)
        t2, r2 = Raw(sim2, Chip(sim2, med2, "T")), Raw(sim2, Chip(sim2, med2, "R"))
        t2.setup(False, retr=ard, rf=0x26)
        r2.setup(True, rf=0x26)
        r2.ce(True)
        sim2.advance(300 * US)
        t2.x(0xA0, 1, 2, 3, 4)
        t2.ce(True)
        sim2.advance(20000 * US)
        _expect(bool(t2.status() & 0x20) == ok, "250kbps ARD code %02x acked=%s" % (ard, ok))
    if verbose:
        print("simulator self-test ok (%d transmissions)" % len(med.log))
    return True
