"""Behavioural model of the nRF24L01(+) and of the air between several chips.

Written from the Nordic nRF24L01+ product specification v1.0 (sections 6-9), not from
the driver.  See DESIGN.md section 2.2 / 2.3 / 2.6 for what is modelled and assumed.
"""
from .core import US

RATE_BPS = {0x00: 1_000_000, 0x08: 2_000_000, 0x20: 250_000, 0x28: 250_000}

# register -> (reset value, writable mask)
REG_1B = {
    0x00: (0x08, 0x7F), 0x01: (0x3F, 0x3F), 0x02: (0x03, 0x3F), 0x03: (0x03, 0x03),
    0x04: (0x03, 0xFF), 0x05: (0x02, 0x7F), 0x06: (0x0E, 0xBF),
    0x0C: (0xC3, 0xFF), 0x0D: (0xC4, 0xFF), 0x0E: (0xC5, 0xFF), 0x0F: (0xC6, 0xFF),
    0x11: (0, 0x3F), 0x12: (0, 0x3F), 0x13: (0, 0x3F), 0x14: (0, 0x3F), 0x15: (0, 0x3F), 0x16: (0, 0x3F),
    0x1C: (0, 0x3F), 0x1D: (0, 0x07),
}
REG_5B = {0x0A: b"\xe7" * 5, 0x0B: b"\xc2" * 5, 0x10: b"\xe7" * 5}
READ_ONLY = (0x08, 0x09, 0x17)

T_SETTLE = 130 * US
T_PD2STBY = 150 * US


class Packet:
    __slots__ = ("addr", "pid", "noack", "payload", "dpl", "legacy", "crc", "ch", "rate", "src",
                 "is_ack", "t0", "t1", "entry", "drop", "drop_ack", "for_entry", "corrupt")

    def key(self):
        return (self.pid, bytes(self.payload), self.noack)


class TxEntry:
    __slots__ = ("payload", "noack", "ack_pipe", "pid")

    def __init__(self, payload, noack, ack_pipe, pid):
        self.payload, self.noack, self.ack_pipe, self.pid = payload, noack, ack_pipe, pid


class Medium:
    """the air: a log of every transmission is the ground truth for the oracles"""

    def __init__(self, sim, destructive=False):
        self.sim = sim
        self.radios = []
        self.log = []
        self.fault = None  # object with on_tx(pkt) -> None, may set pkt.drop / pkt.drop_ack
        self.destructive = destructive

    def targets(self, pkt):
        """chips that could possibly hear this packet (everybody else, by default)"""
        return [r for r in self.radios if r is not pkt.src]

    def transmit(self, pkt):
        pkt.t0 = self.sim.now
        bits = 8 * (1 + len(pkt.addr) + len(pkt.payload) + pkt.crc) + (0 if pkt.legacy else 9)
        dur = int(bits * 1_000_000_000 // pkt.rate)
        pkt.t1 = pkt.t0 + dur
        pkt.corrupt = False
        if not pkt.is_ack:
            pkt.drop = None
            pkt.drop_ack = False
        entry = {"n": len(self.log), "t0": pkt.t0, "t1": pkt.t1, "src": pkt.src.name, "addr": bytes(pkt.addr),
                 "pl": bytes(pkt.payload), "ack": pkt.is_ack, "noack": pkt.noack, "pid": pkt.pid, "rx": [],
                 "ch": pkt.ch, "acked": False, "fate": "D", "ack_of": None, "aw": len(pkt.addr),
                 "retx": getattr(pkt.src, "arc_cnt", 0) if not pkt.is_ack else 0, "dpl": pkt.dpl}
        if pkt.is_ack and pkt.for_entry is not None:
            entry["ack_of"] = pkt.for_entry["n"]
        pkt.entry = entry
        self.log.append(entry)
        if self.fault is not None:
            self.fault.on_tx(pkt)
            if not pkt.is_ack:
                entry["fate"] = "P" if pkt.drop else ("A" if pkt.drop_ack else "D")
            else:
                entry["fate"] = "P" if pkt.drop else "D"
        targets = self.targets(pkt)
        for r in targets:
            r.air_start(pkt)

        def done():
            for r in targets:
                if r.air_end(pkt):
                    entry["rx"].append(r.name)
            pkt.src.tx_done(pkt)

        self.sim.at(pkt.t1, done)
        return dur


class Chip:
    def __init__(self, sim, medium, name="r", plus=True):
        self.sim, self.medium, self.name, self.plus = sim, medium, name, plus
        medium.radios.append(self)
        self.reg = {r: v[0] for r, v in REG_1B.items()}
        self.areg = {r: bytearray(v) for r, v in REG_5B.items()}
        self.features_unlocked = plus
        self.flags = 0  # RX_DR | TX_DS | MAX_RT in bits 6,5,4
        self.txf = []
        self.rxf = []  # (payload, pipe)
        self.ce = False
        self.csn = True
        self.ce_rise = None
        self.ce_fall = None
        self.pid = 0
        self.last_rx = None  # (pid, payload, noack) of the last packet taken on an auto-ack pipe
        self.state = "idle"  # PTX/ACK engine: idle | settle | tx | ackwait | rxack
        self.rx_since = None  # virtual time from which the receiver is settled (None: not in RX)
        self.lock = None
        self.arc_cnt = 0
        self.plos = 0
        self.ack_inflight = {}  # pipe -> TxEntry whose payload rode on the last ACK of that pipe
        self.epoch = 0
        self.ack_from = 0
        self.reuse = False
        self.cur_entry = None
        self.rx_waiters = []
        self.irq_listeners = []
        self.pwr_ready = None  # virtual time at which the crystal is up after PWR_UP 0->1
        self.trace_on = True
        # observation
        self.trace = []  # (now, cmd, data bytes)
        self.illegal = []  # (now, description)
        self.ce_trace = []  # (now, level)
        self.rpd = 0
        self.carrier = False
        self.last_status = 0x0E
        self.fifo_overflows = 0
        self.role_change_ce_high = []  # times at which PRIM_RX was toggled while CE was high

    def warm_start(self, seed):
        """the state a previous program left behind: the MCU was reset, the radio kept its supply.  Every writable
        configuration register holds some legal value, payloads sit in both FIFOs, event flags are latched, the
        packet-id counter is anywhere; on the non-plus variant the feature registers may already be activated."""
        import random
        rng = random.Random(seed)
        self.reg[0x00] = rng.choice([0x08, 0x0A, 0x0B, 0x0E, 0x0F, 0x7B, 0x3A, 0x5F, 0x02, 0x03])
        self.reg[0x01] = rng.randrange(0x40)
        self.reg[0x02] = rng.randrange(0x40)
        self.reg[0x03] = rng.choice([1, 2, 3])
        self.reg[0x04] = rng.randrange(0x100)
        self.reg[0x05] = rng.randrange(126)
        self.reg[0x06] = rng.choice([0x00, 0x02, 0x04, 0x06, 0x08, 0x0E, 0x20, 0x26, 0x27, 0x0F, 0x01])
        for r in (0x0C, 0x0D, 0x0E, 0x0F):
            self.reg[r] = rng.randrange(0x100)
        for r in range(0x11, 0x17):
            self.reg[r] = rng.randrange(33)
        for r in (0x0A, 0x0B, 0x10):
            self.areg[r] = bytearray(rng.randrange(256) for _ in range(5))
        self.features_unlocked = self.plus or rng.random() < 0.6
        if self.features_unlocked:
            # (a non-plus chip left activated with FEATURE == 0 is avoided: the driver's variant test cannot tell it from a
            # plus chip and locks the feature registers again - an observation recorded in DESIGN 6.1, not a claim)
            self.reg[0x1D] = rng.randrange(8) if self.plus else rng.randrange(1, 8)
            self.reg[0x1C] = rng.randrange(0x40) if self.reg[0x1D] & 4 else 0
        for _ in range(rng.randrange(4)):
            self.rxf.append((bytes(rng.randrange(256) for _ in range(rng.randrange(1, 33))), rng.randrange(6)))
        self.flags = rng.choice([0, 0x40, 0x20, 0x10, 0x60, 0x70])
        self.pid = rng.randrange(4)
        for _ in range(rng.randrange(4)):
            self.txf.append(TxEntry(bytes(rng.randrange(256) for _ in range(rng.randrange(1, 33))), False, None, self.pid))
            self.pid = (self.pid + 1) & 3
        self.plos = rng.randrange(16)

    # ------------------------------------------------------------------ derived values
    def status(self):
        p = self.rxf[0][1] if self.rxf else 7
        return self.flags | (p << 1) | (1 if len(self.txf) >= 3 else 0)

    def fifo_status(self):
        return ((0x40 if self.reuse else 0) | (0x20 if len(self.txf) >= 3 else 0) | (0x10 if not self.txf else 0)
                | (2 if len(self.rxf) >= 3 else 0) | (1 if not self.rxf else 0))

    def observe_tx(self):
        return (self.plos << 4) | self.arc_cnt

    def irq_active(self):
        """IRQ pin is active low; True means asserted"""
        return bool(self.flags & ~self.reg[0] & 0x70)

    def aw(self):
        return (self.reg[3] & 3) + 2

    def rate(self):
        return RATE_BPS[self.reg[6] & 0x28]

    def crc_len(self):
        c = self.reg[0]
        if self.reg[1] & 0x3F or c & 8:
            return 2 if c & 4 else 1
        return 0

    def legacy(self):
        return (self.reg[1] & 0x3F) == 0 and (self.reg[4] & 0x0F) == 0

    def feature(self):
        return self.reg[0x1D] if self.features_unlocked else 0

    def dynpd(self):
        return self.reg[0x1C] if self.features_unlocked else 0

    def pipe_addr(self, p):
        aw = self.aw()
        if p < 2:
            return bytes(self.areg[0x0A + p][:aw])
        return bytes([self.reg[0x0A + p]]) + bytes(self.areg[0x0B][1:aw])

    def tx_addr(self):
        return bytes(self.areg[0x10][:self.aw()])

    def pipe_dyn(self, p):
        return bool(self.feature() & 4) and bool(self.dynpd() & (1 << p))

    def powered(self):
        return bool(self.reg[0] & 2)

    def prim_rx(self):
        return bool(self.reg[0] & 1)

    def in_rx_mode(self):
        return self.powered() and self.prim_rx() and self.ce

    def regfile(self):
        """snapshot of every configuration register (used by C03 / C09 oracles)"""
        d = {r: self.reg[r] for r in REG_1B}
        for r in REG_5B:
            d[r] = bytes(self.areg[r])
        if not self.features_unlocked:
            d[0x1C] = 0
            d[0x1D] = 0
        return d

    # ------------------------------------------------------------------ SPI
    def xfer(self, out):
        """one complete SPI transaction (CSN low ... CSN high); returns the MISO bytes"""
        self.sim.spi_tick()
        st = self.status()  # latched at CSN-low, i.e. before the command acts
        self.last_status = st
        cmd = out[0]
        data = bytes(out[1:])
        if self.trace_on:
            self.trace.append((self.sim.now, cmd, data))
        resp = bytearray(len(out))
        resp[0] = st
        n = len(data)
        if cmd < 0x20:  # R_REGISTER
            r = cmd
            if r in self.areg:
                v = bytes(self.areg[r])
            elif r == 7:
                v = bytes([st])
            elif r == 0x17:
                v = bytes([self.fifo_status()])
            elif r == 8:
                v = bytes([self.observe_tx()])
            elif r == 9:
                v = bytes([self.rpd])
            elif r == 0x1C:
                v = bytes([self.dynpd()])
            elif r == 0x1D:
                v = bytes([self.feature()])
            else:
                v = bytes([self.reg.get(r, 0)])
            for i in range(n):
                resp[1 + i] = v[min(i, len(v) - 1)]
        elif cmd < 0x40:  # W_REGISTER
            r = cmd & 0x1F
            if n == 0:
                pass  # a write command without data bytes changes nothing
            elif r in self.areg:
                if n > 5:
                    self.illegal.append((self.sim.now, "address register 0x%02X written with %d bytes" % (r, n)))
                self.areg[r][:min(n, 5)] = data[:5]
                self._lose_lock()
            elif r == 7:
                if data[0] & 0x8F:
                    pass  # read-only / reserved bits of STATUS ignore writes
                self.flags &= ~(data[0] & 0x70)
                self._irq_changed()
                self._kick()
            elif r in READ_ONLY:
                if r == 0x17 and data[0] == 0x40:
                    pass  # the library's non-plus carrier recipe writes TX_REUSE; ignored
                else:
                    self.illegal.append((self.sim.now, "write to read-only register 0x%02X" % r))
            elif r in REG_1B:
                val = data[0]
                old_val = self.reg[r]
                mask = REG_1B[r][1]
                if n > 1:
                    self.illegal.append((self.sim.now, "register 0x%02X written with %d bytes" % (r, n)))
                if val & ~mask & 0xFF:
                    self.illegal.append((self.sim.now, "reserved bits set: reg 0x%02X <- 0x%02X" % (r, val)))
                if 0x11 <= r <= 0x16 and (val & 0x3F) > 32:
                    self.illegal.append((self.sim.now, "RX_PW 0x%02X <- %d (>32)" % (r, val)))
                if r == 6 and (val & 0x28) == 0x28:
                    self.illegal.append((self.sim.now, "RF_SETUP reserved data rate 0x%02X" % val))
                if r in (0x1C, 0x1D) and not self.features_unlocked:
                    pass  # locked until ACTIVATE on the non-plus variant
                else:
                    self.reg[r] = val & mask
                if r == 5:
                    self.plos = 0
                    self._lose_lock()
                if r == 0:
                    if (val ^ old_val) & 1 and self.ce:
                        self.role_change_ce_high.append(self.sim.now)
                    self._config_written()
                if r in (1, 2, 3, 6, 0x1C, 0x1D) or 0x0C <= r <= 0x16:
                    self._lose_lock()
                if r == 6:
                    self.carrier = bool(val & 0x80)
                    self._kick()
            else:
                self.illegal.append((self.sim.now, "write to undefined register 0x%02X" % r))
        elif cmd == 0x61:  # R_RX_PAYLOAD
            if self.rxf:
                pl, _ = self.rxf.pop(0)
            else:
                pl = b""
            for i in range(n):
                resp[1 + i] = pl[min(i, len(pl) - 1)] if pl else 0
            if pl and n != len(pl):
                self.illegal.append((self.sim.now, "R_RX_PAYLOAD of %d bytes for a %d byte payload" % (n, len(pl))))
        elif cmd == 0x60:  # R_RX_PL_WID
            if n:
                resp[1] = len(self.rxf[0][0]) if self.rxf else 0
        elif cmd in (0xA0, 0xB0):  # W_TX_PAYLOAD / W_TX_PAYLOAD_NOACK
            if n == 0 or n > 32:
                self.illegal.append((self.sim.now, "W_TX_PAYLOAD with %d bytes" % n))
            if len(self.txf) < 3 and 0 < n:
                self.pid = (self.pid + 1) & 3
                noack = cmd == 0xB0 and bool(self.feature() & 1)
                self.txf.append(TxEntry(data[:32], noack, None, self.pid))
                self.reuse = False
                self._kick()
        elif 0xA8 <= cmd <= 0xAF:  # W_ACK_PAYLOAD
            if n == 0 or n > 32 or (cmd & 7) > 5:
                self.illegal.append((self.sim.now, "W_ACK_PAYLOAD pipe %d with %d bytes" % (cmd & 7, n)))
            if len(self.txf) < 3 and 0 < n and (cmd & 7) <= 5:
                self.txf.append(TxEntry(data[:32], False, cmd & 7, 0))
        elif cmd == 0xE1:
            self.txf.clear()
            self.ack_inflight.clear()
            self.reuse = False
        elif cmd == 0xE2:
            self.rxf.clear()
        elif cmd == 0xE3:
            self.reuse = True
        elif cmd == 0x50:
            if n and data[0] == 0x73 and not self.plus:
                self.features_unlocked = not self.features_unlocked
        elif cmd == 0xFF:
            pass
        else:
            self.illegal.append((self.sim.now, "unknown command 0x%02X" % cmd))
        return resp

    # ------------------------------------------------------------------ pins
    def set_ce(self, v):
        v = bool(v)
        if v != self.ce:
            self.ce = v
            self.ce_trace.append((self.sim.now, v))
            if v:
                self.ce_rise = self.sim.now
            else:
                self.ce_fall = self.sim.now
            self._mode_change()

    def set_csn(self, v):
        self.csn = bool(v)

    # ------------------------------------------------------------------ mode handling
    def _config_written(self):
        if self.powered():
            if self.pwr_ready is None:
                self.pwr_ready = self.sim.now + T_PD2STBY
        else:
            self.pwr_ready = None
            if self.state in ("settle", "ackwait"):
                self.state = "idle"
                self.epoch += 1
        self._mode_change()

    def _lose_lock(self):
        self.lock = None

    def _mode_change(self):
        if self.in_rx_mode():
            if self.rx_since is None:
                start = self.sim.now
                if self.pwr_ready is not None and self.pwr_ready > start:
                    start = self.pwr_ready
                self.rx_since = start + T_SETTLE
        else:
            self.rx_since = None
            self.lock = None
        if self.state == "ackwait" and (not self.powered() or self.prim_rx()):
            self.state = "idle"
            self.epoch += 1
        self._kick()

    def _kick(self):
        if (self.state == "idle" and self.powered() and not self.prim_rx() and self.ce and self.txf
                and self.txf[0].ack_pipe is None and not (self.flags & 0x10) and not self.carrier):
            self.state = "settle"
            self.arc_cnt = 0
            delay = T_SETTLE
            if self.pwr_ready is not None and self.pwr_ready > self.sim.now:
                delay += self.pwr_ready - self.sim.now
            ep = self.epoch = self.epoch + 1
            self.sim.after(delay, lambda: self._tx_start(ep))

    def _ce_ok(self):
        if self.ce:
            return True
        return (self.ce_rise is not None and self.ce_fall is not None and self.ce_fall - self.ce_rise >= 10 * US
                and self.ce_fall > self.ce_rise)

    def _tx_start(self, ep):
        if ep != self.epoch or self.state != "settle":
            return
        if (not self.txf or not self.powered() or self.prim_rx() or self.flags & 0x10
                or self.txf[0].ack_pipe is not None):
            self.state = "idle"
            return
        if self.arc_cnt == 0 and not self._ce_ok():
            self.state = "idle"
            return
        e = self.txf[0]
        p = Packet()
        p.addr = self.tx_addr()
        p.pid, p.noack, p.payload = e.pid, e.noack, bytes(e.payload)
        p.dpl = self.pipe_dyn(0)
        p.legacy, p.crc, p.ch, p.rate = self.legacy(), self.crc_len(), self.reg[5] & 0x7F, self.rate()
        p.src, p.is_ack, p.for_entry = self, False, None
        self.state = "tx"
        self.medium.transmit(p)

    def tx_done(self, pkt):
        if pkt.is_ack:
            if self.state == "rxack":
                self.state = "idle"
            if self.rx_since is not None:
                self.rx_since = self.sim.now + T_SETTLE
            self._kick()
            return
        if self.state != "tx":
            return
        wait = (not pkt.noack) and bool(self.reg[1] & 1) and not pkt.legacy
        self.cur_entry = pkt.entry
        if not wait:
            self._tx_success(None)
            return
        self.state = "ackwait"
        self.ack_from = self.sim.now + T_SETTLE
        ard = ((self.reg[4] >> 4) + 1) * 250 * US
        ep = self.epoch = self.epoch + 1
        self.sim.after(ard, lambda: self._ack_timeout(ep))

    def _tx_success(self, ack_payload):
        if self.txf and not self.reuse:
            self.txf.pop(0)
        self.flags |= 0x20
        if ack_payload:
            self.rxf.append((bytes(ack_payload), 0))
            self.flags |= 0x40
            self._rx_notify()
        self._irq_changed()
        self.state = "idle"
        self._kick()

    def _ack_timeout(self, ep):
        if self.state != "ackwait" or ep != self.epoch:
            return
        if self.arc_cnt < (self.reg[4] & 0x0F):
            self.arc_cnt += 1
            self.state = "settle"
            ep2 = self.epoch = self.epoch + 1
            self._tx_start(ep2)
        else:
            self.plos = min(15, self.plos + 1)
            self.flags |= 0x10
            self._irq_changed()
            self.state = "idle"

    def _irq_changed(self):
        for w in self.irq_listeners[:]:
            w()

    def _rx_notify(self):
        for w in self.rx_waiters[:]:
            w()

    # ------------------------------------------------------------------ reception
    def _hearing(self, pkt):
        if pkt.ch != (self.reg[5] & 0x7F) or pkt.rate != self.rate():
            return False
        if self.state == "ackwait":
            return pkt.t0 >= self.ack_from
        return self.rx_since is not None and self.state == "idle" and pkt.t0 >= self.rx_since

    def air_start(self, pkt):
        if not self._hearing(pkt):
            return
        if self.lock is None:
            self.lock = pkt
        elif self.medium.destructive:
            self.lock.corrupt = True

    def air_end(self, pkt):
        if self.lock is not pkt:
            return False
        self.lock = None
        if pkt.corrupt:
            return False
        if pkt.crc != self.crc_len() or len(pkt.addr) != self.aw() or pkt.legacy != self.legacy():
            return False
        if self.state == "ackwait":
            return self._take_ack(pkt)
        if self.rx_since is None or self.state != "idle":
            return False
        if pkt.is_ack:
            return False
        if pkt.drop is not None and (pkt.drop is True or self.name in pkt.drop):
            return False
        pipe = None
        for p in range(6):
            if self.reg[2] & (1 << p) and self.pipe_addr(p) == pkt.addr:
                pipe = p
                break
        if pipe is None:
            return False
        self.rpd = 1
        if len(self.rxf) >= 3:
            self.fifo_overflows += 1  # datasheet: a packet arriving at a full RX FIFO is discarded (and not acknowledged)
            return False
        if not pkt.legacy:
            dyn = self.pipe_dyn(pipe)
            if dyn != pkt.dpl:
                return False
            if not dyn and len(pkt.payload) != (self.reg[0x11 + pipe] & 0x3F):
                return False
        elif len(pkt.payload) != (self.reg[0x11 + pipe] & 0x3F):
            return False
        aa_pipe = (not pkt.legacy) and bool(self.reg[1] & (1 << pipe))
        aa = aa_pipe and not pkt.noack
        new = True
        if aa_pipe:  # datasheet fig. 7-? PRX flow: PID/CRC comparison happens on auto-ack pipes
            k = pkt.key()
            new = k != self.last_rx
            self.last_rx = k
        if new:
            self.rxf.append((bytes(pkt.payload), pipe))
            self.flags |= 0x40
            self._irq_changed()
            self._rx_notify()
        if aa:
            ackpl = b""
            if self.feature() & 2 and self.pipe_dyn(pipe):
                if new and pipe in self.ack_inflight:
                    old = self.ack_inflight.pop(pipe)
                    for i, e in enumerate(self.txf):
                        if e is old:
                            self.txf.pop(i)
                            self.flags |= 0x20
                            self._irq_changed()
                            break
                if pipe in self.ack_inflight:
                    ackpl = self.ack_inflight[pipe].payload
                else:
                    for e in self.txf:
                        if e.ack_pipe == pipe:
                            self.ack_inflight[pipe] = e
                            ackpl = e.payload
                            break
            a = Packet()
            a.addr, a.pid, a.noack, a.payload = pkt.addr, pkt.pid, True, bytes(ackpl)
            a.dpl, a.legacy, a.crc, a.ch, a.rate = True, False, self.crc_len(), pkt.ch, pkt.rate
            a.src, a.is_ack, a.for_entry = self, True, pkt.entry
            a.drop = True if pkt.drop_ack else None
            a.drop_ack = False
            self.state = "rxack"

            def go():
                # datasheet 7.5.2 (PRX operation flow): CE is only examined at the top of the loop; once a packet
                # has been taken the ACK goes out even if the MCU has meanwhile pulled CE low or cleared PRIM_RX
                if self.state == "rxack" and self.powered():
                    self.medium.transmit(a)
                elif self.state == "rxack":
                    self.state = "idle"
                    self._kick()

            self.sim.after(T_SETTLE, go)
        return new

    def _take_ack(self, pkt):
        if not pkt.is_ack:
            return False
        if pkt.drop is not None and (pkt.drop is True or self.name in pkt.drop):
            return False
        if not (self.reg[2] & 1) or pkt.addr != self.pipe_addr(0) or pkt.addr != self.tx_addr():
            return False
        if not self.txf or pkt.pid != self.txf[0].pid:
            return False
        if pkt.payload:
            if not self.pipe_dyn(0) or len(self.rxf) >= 3:
                return False
        self.epoch += 1
        if self.cur_entry is not None:
            self.cur_entry["acked"] = True
        if pkt.for_entry is not None:
            pkt.for_entry["acked"] = True
        self._tx_success(pkt.payload)
        return True


class IndexedMedium(Medium):
    """Medium for very large static populations (C04: all 781 nodes): a packet is only offered
    to the chips that have an enabled pipe on its address - looked up in an index built from
    the chips' own registers - plus, for ACK packets, the chips currently waiting for one."""

    def __init__(self, sim):
        super().__init__(sim)
        self.index = {}

    def build_index(self):
        self.index = {}
        for c in self.radios:
            for p in range(6):
                if c.reg[2] & (1 << p):
                    self.index.setdefault(c.pipe_addr(p), []).append(c)

    def targets(self, pkt):
        t = [c for c in self.index.get(bytes(pkt.addr), ()) if c is not pkt.src]
        if pkt.is_ack:
            t += [c for c in self.radios if c.state == "ackwait" and c is not pkt.src and c not in t]
        return t
