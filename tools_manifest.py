#!/venv/bin/python
"""Regenerates MANIFEST.json from the table below (kept as code so it is always valid)."""
import json, os, sys
HERE = os.path.dirname(os.path.abspath(__file__))
sys.path.insert(0, HERE)
from manifest_data import CHECKS, NOT_APPLICABLE, NOTES

BASE = ("cd /repo && /venv/bin/python -m pytest -ra -q -p no:cacheprovider --timeout=900 "
        "--continue-on-collection-errors")
m = {
    "version": 1,
    "setup_cmd": "/venv/bin/python run.py --setup",
    "hooks": {"guard": "NRF24_VERIF", "enable": "no source hooks are needed: the unmodified library runs on a simulated chip "
              "handed in from outside (duck-typed SPI/pin objects, virtual clock patched at import)",
              "baseline_off_cmd": BASE, "source_commits": [], "add_only": True},
    "engines": [{"name": "vlib", "path": "vlib", "serves_properties": [c["property_id"] for c in CHECKS],
                 "kind_free_text": "nRF24L01+ behavioural simulator (chip, air, virtual time) + reference models + "
                 "Hypothesis/enumeration runner with ddmin shrinking and JSON replays"}],
    "checks": [],
    "notes": NOTES,
    "not_applicable": NOT_APPLICABLE,
}
for c in CHECKS:
    pid = c["property_id"]
    m["checks"].append({
        "property_id": pid,
        "quick_cmd": "/venv/bin/python run.py %s --tier quick" % pid,
        "thorough_cmd": "/venv/bin/python run.py %s --tier thorough" % pid,
        "evidence_file": "evidence/%s.json" % pid,
        "replay_cmd_template": "/venv/bin/python run.py %s --replay {path}" % pid,
        "engine": "vlib",
        "level_claimed": {"category": c["level"], "text": c["text"], "design_ref": c["design_ref"]},
        "level_note": c["note"],
        "technique": c["technique"],
    })
json.dump(m, open(os.path.join(HERE, "MANIFEST.json"), "w"), indent=1)
try:
    import jsonschema
    jsonschema.validate(m, json.load(open("/root/.vp/MANIFEST.schema.json")))
    print("MANIFEST.json valid,", len(m["checks"]), "checks,", len(NOT_APPLICABLE), "not applicable")
except ImportError:
    print("written (jsonschema not available here)")
